#!/venv/bin/python
"""Determinism self-test of the simulator.

For every claimed property: N seeds x 2 executions x {16, 3} workers must give
byte-equal event-log digests (same PYTHONHASHSEED), and the *schedule* part
(generated scenario) must also be equal in a fresh interpreter started with a
different PYTHONHASHSEED.  Exit 0 = deterministic, 1 = divergence found."""
import json
import os
import subprocess
import sys

HERE = os.path.dirname(os.path.abspath(__file__))
sys.path.insert(0, os.path.dirname(HERE))


def collect(n, workers, only_scenarios=False):
    from sim import check08, gen07, gen08, gen14, gen19
    from sim.pool import run_pool

    out = {}
    seeds = [424242 * 1000003 + i for i in range(n)]
    for name, fn in (("C07", gen07.run_seed), ("C14", gen14.run_seed), ("C19", gen19.run_seed)):
        if only_scenarios:
            gen = {"C07": lambda s: gen07.gen_scenario(s)[0], "C14": gen14.gen_scenario, "C19": gen19.gen_scenario}[name]
            out[name] = {str(s): gen07._digest(gen(s)) for s in seeds[: max(8, n // 4)]}
        else:
            res = run_pool(fn, seeds, workers=workers, task_timeout=300)
            out[name] = {str(r["task"]): [r["res"]["scenario_digest"], r["res"]["log_digest"]] for r in res}
    # C08: case + canonical outputs + planned variants
    if only_scenarios:
        out["C08"] = {str(s): gen07._digest(gen08.gen_case(s)[0]) for s in seeds[: max(8, n // 4)]}
    else:
        res = run_pool(check08._phase1, [(s, 3, {"variants_per_inc": 1}) for s in seeds[: max(8, n // 3)]],
                       workers=workers, task_timeout=600)
        out["C08"] = {str(r["task"][0]): [gen07._digest(r["res"]["case"]),
                                          gen07._digest([r["res"]["canon"], r["res"]["variants"]])] for r in res}
    return out


def main():
    if len(sys.argv) > 1 and sys.argv[1] == "--child":
        n = int(sys.argv[2])
        print(json.dumps(collect(n, 4, only_scenarios=True)))
        return 0
    if os.environ.get("PYTHONHASHSEED") != "0":
        env = dict(os.environ, PYTHONHASHSEED="0")
        os.execve(sys.executable, [sys.executable] + sys.argv, env)
    n = int(sys.argv[1]) if len(sys.argv) > 1 else 96
    a = collect(n, 16)
    b = collect(n, 3)
    bad = 0
    for prop in a:
        for seed in a[prop]:
            if a[prop][seed] != b[prop].get(seed):
                print("DIVERGENCE %s seed %s: %s vs %s" % (prop, seed, a[prop][seed], b[prop].get(seed)))
                bad += 1
    # schedule part under another hash seed, fresh interpreter
    env = dict(os.environ, PYTHONHASHSEED="31337")
    p = subprocess.run([sys.executable, os.path.abspath(__file__), "--child", str(n)], env=env,
                       capture_output=True, text=True)
    if p.returncode != 0:
        print(p.stdout[-2000:], p.stderr[-2000:])
        return 2
    c = json.loads(p.stdout.strip().splitlines()[-1])
    for prop in c:
        for seed, dig in c[prop].items():
            mine = a[prop][seed][0]
            if dig != mine:
                print("SCHEDULE DIVERGENCE under another PYTHONHASHSEED: %s seed %s" % (prop, seed))
                bad += 1
    tot = sum(len(v) for v in a.values())
    print("determinism: %d seeds x 2 runs x {16,3} workers compared, %d schedules re-generated under PYTHONHASHSEED=31337, %d divergences"
          % (tot, sum(len(v) for v in c.values()), bad))
    return 1 if bad else 0


if __name__ == "__main__":
    sys.exit(main())
