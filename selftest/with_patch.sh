#!/bin/bash
# usage: selftest/with_patch.sh <patch.diff> <command...>
# Runs <command> against a scratch copy of /repo/Lib with the patch applied
# (outside /repo and /verif); the copy is removed afterwards.
set -u
PATCH=$(readlink -f "$1"); shift
D=$(mktemp -d /tmp/verif-mut-XXXXXX)
cp -r /repo/Lib "$D/Lib"
( cd "$D" && patch -s -p1 < "$PATCH" ) || { echo "patch failed"; rm -rf "$D"; exit 3; }
VERIF_REPO_LIB="$D/Lib" "$@"
rc=$?
rm -rf "$D"
exit $rc
