#!/bin/bash
# usage: selftest/confirm_seeded.sh <agent-worktree> <seeded-id> <demo-file>
# Confirms a seeded change in a fresh scratch worktree of /repo (outside /repo and /verif):
#  patch applies, unedited test-suite passes with it, demo fails with it and passes without it.
set -u
WT="$1"; ID="$2"; DEMO="$3"
C=/tmp/confirm-$ID
rm -rf "$C"; git -C /repo worktree add -q "$C" HEAD || exit 3
cd "$C"
git apply "$WT/patch.diff" || { echo "PATCH-DOES-NOT-APPLY"; cd /; git -C /repo worktree remove --force "$C"; exit 3; }
cp "$WT/$DEMO" "$C/$DEMO"
echo "== test-suite with the change"
PYTHONPATH="$C/Lib" /venv/bin/python -m pytest -q -p no:cacheprovider 2>&1 | tail -1
echo "== demo with the change (expect failure)"
PYTHONPATH="$C/Lib" timeout 600 /venv/bin/python "$DEMO" > /tmp/confirm-$ID.with 2>&1; echo "rc=$?"; tail -3 /tmp/confirm-$ID.with
git checkout -q -- Lib
echo "== demo without the change (expect pass)"
PYTHONPATH="$C/Lib" timeout 600 /venv/bin/python "$DEMO" > /tmp/confirm-$ID.without 2>&1; echo "rc=$?"; tail -3 /tmp/confirm-$ID.without
cd /
git -C /repo worktree remove --force "$C"
rm -f /tmp/confirm-$ID.with /tmp/confirm-$ID.without
mkdir -p /verif/seeded/$ID
cp "$WT/patch.diff" /verif/seeded/$ID/patch.diff
cp "$WT/$DEMO" /verif/seeded/$ID/$DEMO
