#!/bin/bash
# Runs every kept breaking change (hand-written mutants/*.diff and the seeded/<id>/patch.diff
# from independent sub-agents) against the quick check of its property, on a scratch copy of
# /repo/Lib. Prints one line per change: DETECTED (exit 1 with a VIOLATION line), MISSED (exit 0)
# or ERROR. Exit status 0 iff all are detected.
cd "$(dirname "$0")/.."
bad=0
run() { # <patch> <prop>
  out=$(mktemp /tmp/sens-XXXXXX)
  selftest/with_patch.sh "$1" timeout 1800 ./check "$2" --tier quick > "$out" 2>&1
  rc=$?
  if [ $rc -eq 1 ] && grep -q "^VIOLATION property=$2 " "$out"; then echo "DETECTED $2 $1"
  elif [ $rc -eq 0 ]; then echo "MISSED   $2 $1"; bad=1
  else echo "ERROR($rc) $2 $1"; tail -3 "$out"; bad=1; fi
  rm -f "$out"
}
for p in mutants/*.diff; do
  prop=$(basename "$p" | cut -c1-3 | tr a-z A-Z)
  run "$p" "$prop"
done
for d in seeded/*/; do
  id=$(basename "$d"); prop=${id%%-*}
  if [ -f "$d/patch-rebased.diff" ]; then run "$d/patch-rebased.diff" "$prop"; else run "$d/patch.diff" "$prop"; fi
done
find replays -name "*.json" -delete 2>/dev/null
exit $bad
