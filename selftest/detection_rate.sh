#!/bin/bash
# For every seeded change: run the quick check of its property under several VERIF_SEED values
# and report how often it is detected (exit 1 + VIOLATION line). Usage: detection_rate.sh [seeds...]
cd "$(dirname "$0")/.."
seeds="${@:-2 3 4}"
for d in seeded/*/; do
  id=$(basename "$d"); prop=${id%%-*}
  patch="$d/patch.diff"; [ -f "$d/patch-rebased.diff" ] && patch="$d/patch-rebased.diff"
  hit=0; n=0
  for sd in $seeds; do
    out=$(mktemp /tmp/rate-XXXXXX)
    VERIF_SEED=$sd selftest/with_patch.sh "$patch" timeout 1800 ./check "$prop" --tier quick > "$out" 2>&1
    rc=$?; n=$((n+1))
    if [ $rc -eq 1 ] && grep -q "^VIOLATION property=$prop " "$out"; then hit=$((hit+1)); fi
    rm -f "$out"
  done
  echo "$id detected $hit/$n"
done
find replays -name "*.json" -delete 2>/dev/null
