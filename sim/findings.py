"""Known findings: genuine defects of googlefonts/ufo2ft that are recorded rather
than repaired.  The committed file /verif/known_findings.json lists them; this
module only *reads* it.  An entry suppresses exactly the diff paths produced by
the call site it names, under its precondition - any other difference on the same
run is still a VIOLATION.  ``fixed`` entries suppress nothing."""
from __future__ import annotations

import json
import os
import re

from . import VERIF_DIR

PATH = os.path.join(VERIF_DIR, "known_findings.json")

UFO2FT = "com.github.googlei18n.ufo2ft."


def load():
    with open(PATH) as f:
        return json.load(f)["findings"]


def open_findings(prop):
    return [f for f in load() if f["property"] == prop and f["status"] == "open"]


# --- preconditions over the pristine snapshots of a world -------------------


def is_open(fid):
    return any(f["id"] == fid and f["status"] == "open" for f in load())


def _color_layer_names(twin):
    names = set()
    m = twin["lib"].get(UFO2FT + "colorLayerMapping")
    for pair in m or []:
        names.add(pair[0])
    for layer in twin["layers"].values():
        if not isinstance(layer, dict):
            continue
        for g in layer["glyphs"].values():
            if isinstance(g, dict):
                for pair in g["lib"].get(UFO2FT + "colorLayerMapping") or []:
                    names.add(pair[0])
    return names


def _dotted_circle_name(twin):
    layer = twin["layers"].get(twin["defaultLayer"])
    if isinstance(layer, dict):
        for name, g in layer["glyphs"].items():
            if isinstance(g, dict) and 0x25CC in g.get("unicodes", []):
                return name
    return "uni25CC"


def _has_dotted_circle_filter(twin, step):
    for d in twin["lib"].get(UFO2FT + "filters") or []:
        if str(d.get("name", "")).replace(" ", "").lower() in ("dottedcircle", "dottedcirclefilter"):
            return True
    for d in (step or {}).get("opts", {}).get("filters", []) or []:
        if isinstance(d, dict) and d.get("cls") == "DottedCircleFilter":
            return True
    return False


def classify(prop, paths, twins, step=None, history=()):
    """Split diff paths into (known: {finding_id: [paths]}, unknown: [paths]).

    ``twins``: pristine snapshots of the world's fonts (index = fontN in paths).
    ``history``: the steps executed so far on this world (dotted-circle / colour
    mutations persist, so the precondition looks at every step up to now)."""
    fnds = open_findings(prop)
    known, unknown = {}, []
    steps = list(history) + ([step] if step else [])
    for p in paths:
        m = re.match(r"font(\d+)/(.*)", p)
        hit = None
        if m:
            fi, rest = int(m.group(1)), m.group(2)
            twin = twins[fi] if fi < len(twins) else None
            for f in fnds:
                if twin is not None and _match(f, rest, twin, steps):
                    hit = f["id"]
                    break
        if hit:
            known.setdefault(hit, []).append(p)
        else:
            unknown.append(p)
    return known, unknown


def _match(f, rest, twin, steps):
    site = f["site"]
    if site == "ExplodeColorLayerGlyphsFilter":
        # (the in-place editing of the colour layers' glyphs was fixed; only the
        # lib key written by set_context is still open)
        if not rest.startswith("lib/" + UFO2FT + "colorLayers"):
            return False
        if (UFO2FT + "colorLayers") in twin["lib"]:
            return False
        # the filter runs either because the pre-processor installs it (palettes +
        # a layer mapping) or because the caller invoked it explicitly
        explicit = any(isinstance(d, dict) and d.get("cls") == "ExplodeColorLayerGlyphsFilter"
                       for st in steps for d in (st or {}).get("opts", {}).get("filters", []) or [])
        implicit = (UFO2FT + "colorPalettes") in twin["lib"] and bool(_color_layer_names(twin))
        return explicit or implicit
    if site == "DottedCircleFilter.ensure_base":
        if not any(_has_dotted_circle_filter(twin, s) for s in steps):
            return False
        # ensure_base either rewrites features.text (only when it has a GDEF table
        # block) or sets lib[public.openTypeCategories][<dotted circle>] = 'base'
        if rest.startswith("features"):
            return "table GDEF" in (twin.get("features") or "")
        dc = _dotted_circle_name(twin)
        return bool(re.match(r"lib/public\.openTypeCategories/%s \(added\)$" % re.escape(dc), rest)
                    or re.match(r"lib/public\.openTypeCategories/%s \(.* -> 'base'\)$" % re.escape(dc), rest))
    if site == "setupTable_MATH.constants.pop":
        return rest == "lib/com.nagwa.MATHPlugin.constants/MinConnectorOverlap (removed)"
    return False
