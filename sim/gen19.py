"""C19 - instances equal masters at master locations and the model's blend
elsewhere; repeated generation from one instantiator.

History machine over one long-lived Instantiator: instance / glyph-instance /
interpolated-layer requests at master locations, extremes and interior points,
the same request twice, replace_source_layers edits, caller-side mutation of
previously returned objects, and failed requests (incompatible edit, injected
crash).  Every request is checked against (1) a stateless reference model,
(2) a fresh instantiator, (3) glyph-set / rule-swap laws, (4) the pristine
sources."""
from __future__ import annotations

import copy
import random

from . import corpusworlds, executor, gen07, instmodel, materialize, seams, world
from .snapshot import diff, snap_font, snap_glyph

PROP = "C19"

CORPUS_DS = [
    "MutatorSansLite/MutatorSans_v5_implicit_one_vf.designspace",
    "DesignspaceTest/DesignspaceTest.designspace",
    "DesignspaceTest/DesignspaceTest-wght-wdth.designspace",
    "DesignspaceRuleOrder/MyFont.designspace",
    "TestVarfea.designspace", "NestedComponents.designspace", "SkipExportGlyphsTest.designspace",
    "TestVarFont.designspace",
]
INFO_NUM = ("unitsPerEm", "ascender", "descender", "xHeight", "capHeight", "italicAngle")


def pick_world(rng):
    if rng.random() < 0.15:
        return corpusworlds.ds_world(rng.choice(CORPUS_DS))
    force = ["kerning"] if rng.random() < 0.6 else []
    if rng.random() < 0.5:
        force += ["alternates"]
    if rng.random() < 0.5:
        force += ["composites"]
    fam = world.gen_family(rng, force=force, forbid=("color", "dottedcircle", "math", "discrete_axis", "explicit_default_layer"),
                           n_masters=rng.choice([2, 2, 2, 3, 3, 1]), max_glyphs=10)
    _alt_refers_to_base(fam)
    return fam


def _alt_refers_to_base(fam):
    """In some families the substitute of a rule is built *from* the glyph it replaces
    (``a.alt`` = component ``a`` + its own contours) while ``a`` has no components: the
    swap then has to re-point a reference that only exists once the contents have been
    exchanged.  The decision comes from a private PRNG keyed by the family's content, so
    the shared stream (and with it every other generated family) is left as it was."""
    import random as _random
    subs = [p for r in fam.get("rules") or [] for p in r["subs"]]
    if not subs:
        return
    m0 = fam["masters"][0]["glyphs"]
    key = "alt-of-base:%s:%s" % (fam["upm"], ",".join("%s=%s" % (n, g["width"]) for n, g in sorted(m0.items())))
    prng = _random.Random(key)
    if prng.random() >= 0.4:
        return
    for a, b in subs:
        if not b.startswith(a + ".") or a not in m0 or b not in m0:
            continue
        if m0[a]["components"] or m0[b]["components"]:
            continue
        dx = prng.choice([0, 30, 45])
        for k, m in enumerate(fam["masters"]):
            layers = [m["glyphs"]] + list((m.get("layers") or {}).values())
            for lay in layers:
                if b in lay and a in lay:
                    lay[b]["components"].append([a, [1, 0, 0, 1, dx + 10 * k, 0]])
        break


def ds_facts(ds):
    """Axes / sources facts read from the DesignSpaceDocument object."""
    axes = []
    for a in ds.axes:
        d = {"name": a.name, "minimum": a.minimum, "default": a.default, "maximum": a.maximum}
        if a.map:
            d["map"] = [list(p) for p in a.map]
        axes.append(d)
    return axes


def gen_locations(rng, bounds, master_locs, n):
    locs = []
    for ml in master_locs:
        locs.append(dict(ml))
    # extremes and interior points
    for _ in range(n):
        loc = {}
        for name, lo, d, hi in bounds:
            x = rng.random()
            if x < 0.2:
                v = lo
            elif x < 0.4:
                v = hi
            elif x < 0.5:
                v = d
            elif x < 0.58:
                v = hi + (hi - lo) * 0.25  # beyond the axis: clamped
            elif x < 0.64:
                v = lo - (hi - lo) * 0.25
            else:
                v = lo + (hi - lo) * rng.choice([0.125, 0.25, 0.5, 0.625, 0.75, 0.9])
            loc[name] = v
        locs.append(loc)
    return locs


def gen_scenario(seed, profile=None):
    rng = random.Random(seed)
    spec = pick_world(rng)
    w = materialize.materialize(spec, mode="u2mem")
    try:
        axes = ds_facts(w.ds)
        bounds = instmodel.axis_bounds(axes)
        master_locs = [instmodel.full_location(dict(s.location), bounds) for s in w.ds.sources]
        names = sorted(w.fonts[0].keys())
        nsrc = len(w.ds.sources)
        rule_pairs = [list(p) for r in w.ds.rules for p in r.subs]
    finally:
        w.close()
    locs = gen_locations(rng, bounds, master_locs, 6)
    steps = []
    n = rng.randint(6, 14)
    produced = 0
    for _ in range(n):
        x = rng.random()
        loc = dict(rng.choice(locs))
        if rng.random() < 0.3:
            # leave out axes that sit at their default
            loc = {k: v for k, v in loc.items() if v != dict((b[0], b[2]) for b in bounds)[k]} or loc
        if x < 0.45:
            steps.append({"op": "instance", "loc": loc})
            if rng.random() < 0.3:
                steps[-1]["attrs"] = rng.choice([
                    {"postScriptFontName": "Inst-S", "styleMapFamilyName": "Inst", "styleMapStyleName": "bold"},
                    {"styleName": None}, {"familyName": None, "styleMapStyleName": "regular"}])
            produced += 1
        elif x < 0.6:
            steps.append({"op": "glyph_instance", "glyph": rng.choice(names), "loc": loc,
                          "into": rng.choice([False, False, False, True, "dirty"])})
        elif x < 0.7:
            steps.append({"op": "layer_get", "layer": rng.randrange(nsrc), "glyph": rng.choice(names)})
        elif x < 0.8 and steps:
            steps.append(copy.deepcopy(rng.choice(steps)))  # the same request again
        elif x < 0.9:
            steps.append({"op": "replace_layers", "edit": {
                "kind": rng.choice(["shift", "shift", "shift", "incompatible", "identity"]),
                "layer": rng.randrange(nsrc), "glyph": rng.choice(names),
                "dx": rng.choice([10, -20, 35]), "dw": rng.choice([0, 20])}})
        elif produced:
            steps.append({"op": "mutate_result", "which": rng.randrange(produced)})
        else:
            steps.append({"op": "instance", "loc": loc})
            produced += 1
        if steps[-1]["op"] in ("instance", "glyph_instance") and rng.random() < 0.1:
            steps[-1] = dict(steps[-1], fault={"kind": "trace", "at": rng.randint(1, 60), "gran": "call",
                                               "pkgs": ["ufo2ft", "fontMath"]})
            if steps[-1]["op"] == "instance":
                pass
    mode = rng.choice(["u2mem", "u2mem", "u2lazy", "dcmem"])
    return {"id": "c19-%d" % seed, "seed": seed, "property": PROP, "world": {"spec": spec},
            "mat": {"mode": mode, "order_key": "o%d" % seed if rng.random() < 0.5 else None, "perm_key": None},
            "round_geometry": rng.random() < 0.5, "steps": steps, "swap_probe": rule_pairs[:1]}


# ----------------------------------------------------------------- execution


class Sys:
    """One instantiator over one world, plus the list of edits applied so far."""

    def __init__(self, scn, scratch_root=None):
        from ufo2ft.instantiator import Instantiator

        m = scn["mat"]
        self.world = materialize.materialize(scn["world"]["spec"], mode=m.get("mode", "u2mem"),
                                             order_key=m.get("order_key"), perm_key=m.get("perm_key"),
                                             scratch_root=scratch_root)
        self.inst = Instantiator.from_designspace(self.world.ds, round_geometry=scn["round_geometry"])

    def apply_edit(self, edit):
        from ufo2ft.util import _copyGlyph

        new_layers = []
        for li, (loc, layer) in enumerate(self.inst.source_layers):
            nl = {}
            for name, g in layer.items():
                g2 = _copyGlyph(g)
                if li == edit["layer"] and name == edit["glyph"]:
                    _edit_glyph(g2, edit)
                nl[name] = g2
            new_layers.append(nl)
        self.inst.replace_source_layers(new_layers)

    def close(self):
        self.world.close()


def _edit_glyph(g, edit):
    if edit["kind"] == "identity":
        return
    if edit["kind"] == "shift":
        g.width = g.width + edit["dw"]
        for c in g:
            for p in _points(c):
                p.x = p.x + edit["dx"]
        return
    if edit["kind"] == "incompatible":
        if len(g):
            g.clearContours()
        else:
            pen = g.getPointPen()
            pen.beginPath()
            for x, y in ((0, 0), (50, 0), (25, 40)):
                pen.addPoint((x, y), segmentType="line")
            pen.endPath()


def _points(contour):
    return list(getattr(contour, "points", None) or contour)


def _edit_model_glyph(g, edit):
    if edit["kind"] == "identity":
        return
    if edit["kind"] == "shift":
        g["width"] = g["width"] + edit["dw"]
        for c in g["contours"]:
            for p in c["pts"]:
                p[0] = p[0] + edit["dx"]
        return
    if edit["kind"] == "incompatible":
        if g["contours"]:
            g["contours"] = []
        else:
            g["contours"] = [{"id": None, "pts": [[0, 0, "line", False, None, None], [50, 0, "line", False, None, None],
                                                  [25, 40, "line", False, None, None]]}]


class Model:
    """Stateless reference: everything is recomputed from the pristine snapshots
    (plus the edits applied so far, which are part of the inputs)."""

    def __init__(self, world, round_geometry):
        ds = world.ds
        self.axes = ds_facts(ds)
        self.axes_raw = [dict(a, tag=x.tag) for a, x in zip(self.axes, ds.axes)]
        self.bounds = instmodel.axis_bounds(self.axes)
        self.axis_order = [b[0] for b in self.bounds]
        self.rg = round_geometry
        font_idx = {id(f): i for i, f in enumerate(world.fonts)}
        self.sources = []
        dflt_loc = {b[0]: b[2] for b in self.bounds}
        self.default_idx = None
        for si, s in enumerate(ds.sources):
            fi = font_idx[id(s.font)]
            twin = world.twins[fi]
            lname = s.layerName or twin["defaultLayer"]
            loc = instmodel.full_location(dict(s.location), self.bounds)
            self.sources.append({"font": fi, "layer": lname, "loc": loc, "is_layer": s.layerName is not None,
                                 "nloc": instmodel.normalize(loc, self.bounds)})
            if self.default_idx is None and all(loc[k] == dflt_loc[k] for k in dflt_loc):
                self.default_idx = si
        self.twins = world.twins
        self.layers = [copy.deepcopy(self.twins[s["font"]]["layers"][s["layer"]]["glyphs"]) for s in self.sources]
        self.rules = [{"name": r.name, "conditionSets": [[dict(c) for c in cs] for cs in r.conditionSets],
                       "subs": [list(p) for p in r.subs]} for r in ds.rules]
        self.ds_skip = list(ds.lib.get("public.skipExportGlyphs", []))

    def apply_edit(self, edit):
        lay = self.layers[edit["layer"]]
        if edit["glyph"] in lay:
            _edit_model_glyph(lay[edit["glyph"]], edit)

    def glyph(self, name, loc_design):
        nloc = instmodel.normalize(instmodel.full_location(loc_design, self.bounds), self.bounds)
        g, at_master = instmodel.expected_glyph(name, self.layers, [s["nloc"] for s in self.sources],
                                                self.default_idx, nloc, self.axis_order)
        if g is None:
            return None, False
        if self.rg:
            g = instmodel.round_glyph(g)
        g["unicodes"] = list(self.layers[self.default_idx][name]["unicodes"])
        return g, at_master

    def swaps(self, loc_design, glyph_names):
        loc = instmodel.full_location(loc_design, self.bounds)
        out = []
        for r in self.rules:
            ok = False
            for cs in r["conditionSets"]:
                good = True
                for c in cs:
                    v = loc.get(c["name"])
                    if v is None:
                        continue
                    lo, hi = c.get("minimum"), c.get("maximum")
                    if lo is not None and hi is not None:
                        if not (lo <= v <= hi):
                            good = False
                    elif lo is not None:
                        if not v >= lo:
                            good = False
                    elif hi is not None:
                        if not v <= hi:
                            good = False
                if good:
                    ok = True
                    break
            if ok:
                for a, b in r["subs"]:
                    if a in glyph_names:
                        out.append((a, b))
        return out

    def kerning_expect(self, loc_design):
        """{pair: value} over the union of the kerning masters' pairs, or None."""
        dtwin = self.twins[self.sources[self.default_idx]["font"]]
        groups = {k: v for k, v in dtwin["groups"].items()
                  if k.startswith(instmodel.K1) or k.startswith(instmodel.K2)}
        if not instmodel.unique_group_membership(groups):
            return None, groups
        masters = [s for i, s in enumerate(self.sources) if not s["is_layer"] or i == self.default_idx]
        pairs = set()
        for s in masters:
            pairs |= set(self.twins[s["font"]]["kerning"])
        nloc = instmodel.normalize(instmodel.full_location(loc_design, self.bounds), self.bounds)
        out = {}
        for key in sorted(pairs):
            l, r = key.split("|")
            vals, amb = [], False
            for s in masters:
                v, a = instmodel.kern_lookup(self.twins[s["font"]]["kerning"], groups, (l, r))
                vals.append(v)
                amb = amb or a
            if amb:
                continue
            try:
                v, _ = instmodel.interpolate([s["nloc"] for s in masters], [[x] for x in vals], nloc, self.axis_order)
            except AssertionError:
                raise
            except Exception:  # noqa: BLE001
                return None, groups
            out[key] = v[0]
        return out, groups

    def info_expect(self, loc_design):
        masters = [s for i, s in enumerate(self.sources) if not s["is_layer"] or i == self.default_idx]
        nloc = instmodel.normalize(instmodel.full_location(loc_design, self.bounds), self.bounds)
        out = {}
        for attr in INFO_NUM:
            vals = [self.twins[s["font"]]["info"].get(attr) for s in masters]
            if any(v is None for v in vals):
                continue
            try:
                v, _ = instmodel.interpolate([s["nloc"] for s in masters], [[x] for x in vals], nloc, self.axis_order)
            except AssertionError:
                raise
            except Exception:  # noqa: BLE001
                continue
            out[attr] = v[0]
        return out


def _instance_descriptor(loc, attrs=None):
    from fontTools.designspaceLib import InstanceDescriptor

    d = InstanceDescriptor()
    d.designLocation = dict(loc)
    d.familyName = "Inst"
    d.styleName = "S"
    for k, v in (attrs or {}).items():
        setattr(d, k, v)
    return d


def _request(sysm, st, fault=None):
    """Serve one request; returns (outcome, result object)."""
    inst = sysm.inst
    tf = seams.TraceFault(fault) if fault else None
    res = None
    try:
        with (tf if tf is not None else _null()):
            if st["op"] == "instance":
                res = inst.generate_instance(_instance_descriptor(st["loc"], st.get("attrs")))
            elif st["op"] == "glyph_instance":
                loc = {**inst.default_design_location, **st["loc"]}
                if st.get("into"):
                    # the caller supplies the glyph object to fill - one it has used before
                    og = inst.new_glyph(st["glyph"])
                    if st.get("into") == "dirty":
                        pen = og.getPointPen()
                        pen.beginPath()
                        for x, y in ((1, 1), (9, 1), (5, 8)):
                            pen.addPoint((x, y), segmentType="line")
                        pen.endPath()
                        pen.addComponent(st["glyph"], (1, 0, 0, 1, 3, 3))
                        og.appendAnchor({"name": "stale", "x": 1, "y": 2})
                        og.width = 12345
                    res = inst.generate_glyph_instance(st["glyph"], inst.normalize(loc), output_glyph=og)
                else:
                    res = inst.generate_glyph_instance(st["glyph"], inst.normalize(loc))
            elif st["op"] == "layer_get":
                layers = inst.interpolated_layers
                res = layers[st["layer"] % len(layers)][st["glyph"]]
        oc = "ok"
    except Exception as e:  # noqa: BLE001
        oc = "exc:" + type(e).__name__
    return oc, res, (tf.fired if tf else None)


class _null:
    def __enter__(self):
        return self

    def __exit__(self, *a):
        return False


def _snap_result(st, res):
    if res is None:
        return None
    if st["op"] == "instance":
        return snap_font(res, peek=False)
    return snap_glyph(res, full=False)


def _scribble(font):
    """The caller edits an instance it was handed."""
    for g in font:
        g.width = (g.width or 0) + 111
        for c in g:
            for p in _points(c):
                p.x = p.x + 7
                break
            break
        for a in g.anchors:
            a.x = a.x + 3
        g.unicodes = [0xE000]
    for k in list(font.kerning.keys())[:3]:
        font.kerning[k] = font.kerning[k] + 9
    for gn in list(font.groups.keys()):
        font.groups[gn].append("scribble")
    for k in list(font.lib.keys()):
        v = font.lib[k]
        if isinstance(v, list):
            v.append("scribble")
        elif isinstance(v, dict):
            v["scribble"] = 1
            for kk in list(v.keys())[:2]:
                if isinstance(v[kk], list):
                    v[kk].append("scribble")
    font.lib["new.scribble"] = 1
    font.info.familyName = "Scribble"
    if getattr(font.info, "openTypeNameRecords", None):
        try:
            font.info.openTypeNameRecords.pop()
        except Exception:  # noqa: BLE001
            pass
    font.features.text = (font.features.text or "") + "# scribble\n"


def check_instance(model, st, snap, msgs):
    """Oracles 1 and 3 on a returned instance font."""
    layer = snap["layers"][snap["defaultLayer"]]["glyphs"]
    dflt_names = set(model.layers[model.default_idx])
    if set(layer) != dflt_names:
        msgs.append("glyphset: instance has %s, default source has %s"
                    % (sorted(set(layer) - dflt_names)[:5], sorted(dflt_names - set(layer))[:5]))
        return
    swaps = [(a, b) for a, b in model.swaps(st["loc"], dflt_names) if a != b]
    if any(b not in dflt_names for a, b in swaps):
        return  # the real code raises here; outcome compared by oracle 2
    # expected pre-swap glyphs
    exp_layer = {}
    claims = 0
    for name in sorted(dflt_names):
        g, at_master = model.glyph(name, st["loc"])
        exp_layer[name] = (g, at_master)
    exp_font = None
    if all(g is not None for g, _ in exp_layer.values()):
        exp_font = {"defaultLayer": "d", "layers": {"d": {"glyphs": {n: g for n, (g, _) in exp_layer.items()}}},
                    "kerning": {}, "groups": {}}
        for a, b in swaps:
            exp_font = instmodel.swap_names(exp_font, a, b)
        for name, g in exp_font["layers"]["d"]["glyphs"].items():
            instmodel.compare_glyph(g, layer[name], model.rg, "glyph/%s" % name, msgs)
            claims += 1
            # code points never move
            if list(layer[name]["unicodes"]) != list(model.layers[model.default_idx][name]["unicodes"]):
                msgs.append("glyph/%s/unicodes model %r got %r" % (
                    name, model.layers[model.default_idx][name]["unicodes"], layer[name]["unicodes"]))
    elif not swaps:
        for name, (g, _) in exp_layer.items():
            if g is not None:
                instmodel.compare_glyph(g, layer[name], model.rg, "glyph/%s" % name, msgs)
                claims += 1
    # groups: all of the default source's groups, with rule swaps applied to the members
    def ren_all(name):
        for a_, b_ in swaps:
            name = b_ if name == a_ else a_ if name == b_ else name
        return name

    dtwin = model.twins[model.sources[model.default_idx]["font"]]
    if swaps:
        # C19 only speaks about group *references* under rule substitutions: every group
        # the instance took over from the default source must name the swapped glyphs
        for gname, members in dtwin["groups"].items():
            got = snap["groups"].get(gname)
            if got is None:
                continue
            want = [ren_all(m) for m in members]
            if list(got) != want:
                msgs.append("groups/%s model %r got %r" % (gname, want, got))
            claims += 1
    # kerning: the model's value for every master pair, under the swapped names
    exp, groups = model.kerning_expect(st["loc"])
    if exp is not None:
        igroups = {k: v for k, v in snap["groups"].items()
                   if k.startswith(instmodel.K1) or k.startswith(instmodel.K2)}
        for key, v in exp.items():
            l, r = key.split("|")
            got, amb = instmodel.kern_lookup(snap["kerning"], igroups, (ren_all(l), ren_all(r)))
            if amb:
                continue
            if not instmodel.num_close(v, got, model.rg):
                msgs.append("kerning/%s model %r got %r" % (key, v, got))
            claims += 1
    # (No claims about lib['designspace.location'] or about OS/2 weight / width class
    # and italic angle *derived from axis values*: C19 speaks about the masters' info
    # and about interpolated coordinates, advances and kerning only; a harmless change
    # of those conventions must not raise an alarm.)
    for attr, v in model.info_expect(st["loc"]).items():
        got = snap["info"].get(attr)
        if not instmodel.num_close(v, got, model.rg and attr != "italicAngle"):
            msgs.append("info/%s model %r got %r" % (attr, v, got))
        claims += 1
    return claims


def model_expects_instance(model, st):
    """True when the model can compute every glyph of the instance (compatible
    masters everywhere) and every rule swap has both glyphs - then generating the
    instance has no legitimate reason to fail."""
    names = set(model.layers[model.default_idx])
    try:
        for name in sorted(names):
            g, _ = model.glyph(name, st["loc"])
            if g is None:
                return False
        for a, b in model.swaps(st["loc"], names):
            if a != b and b not in names:
                return False
        kern, _ = model.kerning_expect(st["loc"])
        if kern is None:
            return False
    except AssertionError:
        raise
    except Exception:  # noqa: BLE001
        return False
    return True


def execute(scn, scratch_root=None):
    executor.quiet()
    sysm = Sys(scn, scratch_root)
    model = Model(sysm.world, scn["round_geometry"])
    events, violations = [], []
    stats = {"requests": 0, "at_master": 0, "interior": 0, "swaps_fired": 0, "replace": 0, "mutations": 0,
             "failed_requests": 0, "faults_fired": 0, "model_claims": 0, "repeat_requests": 0, "warm_cache_hits": 0}
    edits = []
    results = []  # live instance fonts handed to the "caller"
    seen_requests = set()
    try:
        for i, st in enumerate(scn["steps"]):
            ev = {"i": i, "op": st["op"]}
            msgs = []
            if st["op"] in ("instance", "glyph_instance", "layer_get"):
                stats["requests"] += 1
                key = repr(sorted((k, repr(v)) for k, v in st.items() if k != "fault"))
                if key in seen_requests:
                    stats["repeat_requests"] += 1
                seen_requests.add(key)
                if st["op"] != "layer_get" and st.get("glyph", None) in sysm.inst.glyph_mutators:
                    stats["warm_cache_hits"] += 1
                fault = st.get("fault")
                oc, res, fired = _request(sysm, st, fault)
                ev["outcome"], ev["fired"] = oc, fired
                if fired:
                    stats["faults_fired"] += 1
                if oc != "ok":
                    stats["failed_requests"] += 1
                snap = _snap_result(st, res)
                if not (fault and fired):
                    # oracle 2: fresh instantiator, same edits, same request
                    fs = Sys(scn, scratch_root)
                    try:
                        for e in edits:
                            fs.apply_edit(e)
                        oc2, res2, _ = _request(fs, st)
                        snap2 = _snap_result(st, res2)
                    finally:
                        fs.close()
                    if oc != oc2:
                        msgs.append("cache: outcome %s but a fresh instantiator gives %s" % (oc, oc2))
                    elif snap is not None:
                        d = diff(snap2, snap, "result", limit=6)
                        if d:
                            msgs.append("cache: differs from a fresh instantiator's answer: %s" % "; ".join(d))
                    # a request the model can fully answer must not fail
                    if oc != "ok" and st["op"] == "instance" and model_expects_instance(model, st):
                        msgs.append("failure: request raised %s although every glyph of the default source has "
                                    "structurally compatible masters (the model yields an instance)" % oc[4:])
                    # oracle 1/3: the stateless model
                    if oc == "ok":
                        if st["op"] == "instance":
                            c = check_instance(model, st, snap, msgs)
                            stats["model_claims"] += c or 0
                            nloc = instmodel.normalize(instmodel.full_location(st["loc"], model.bounds), model.bounds)
                            if any(s["nloc"] == nloc for s in model.sources):
                                stats["at_master"] += 1
                            else:
                                stats["interior"] += 1
                            if model.swaps(st["loc"], set(model.layers[model.default_idx])):
                                stats["swaps_fired"] += 1
                            # swapping twice restores the font (real swap function, on a throw-away copy)
                            for a, b in (scn.get("swap_probe") or [])[:1]:
                                if a in res and b in res and a != b:
                                    from ufo2ft.instantiator import swap_glyph_names

                                    before = snap_font(res, peek=False)
                                    swap_glyph_names(res, a, b)
                                    once = snap_font(res, peek=False)
                                    want = instmodel.swap_names(before, a, b)
                                    d1 = diff(want, once, "swap", limit=4)
                                    if d1:
                                        msgs.append("swap: differs from the reference swap: %s" % "; ".join(d1))
                                    swap_glyph_names(res, a, b)
                                    d2 = diff(before, snap_font(res, peek=False), "swap2", limit=4)
                                    if d2:
                                        msgs.append("swap: swapping twice does not restore the font: %s" % "; ".join(d2))
                            results.append(res)
                        elif st["op"] == "glyph_instance":
                            if st["glyph"] in model.layers[model.default_idx]:
                                g, _ = model.glyph(st["glyph"], st["loc"])
                                if g is not None:
                                    instmodel.compare_glyph(g, snap, model.rg, "glyph/%s" % st["glyph"], msgs)
                                    stats["model_claims"] += 1
                                    if list(snap["unicodes"]) != list(g["unicodes"]):
                                        msgs.append("glyph/%s/unicodes model %r got %r" % (st["glyph"], g["unicodes"], snap["unicodes"]))
                            # the caller may edit what it was handed
                            res.width = (res.width or 0) + 55
                        elif st["op"] == "layer_get":
                            li = st["layer"] % len(model.sources)
                            if st["glyph"] in model.layers[model.default_idx]:
                                exp = model.layers[li].get(st["glyph"])
                                if exp is not None and exp["contours"]:
                                    # the source glyph itself is served at its own location
                                    d = diff({k: exp[k] for k in ("width", "contours", "components", "anchors")},
                                             {k: snap[k] for k in ("width", "contours", "components", "anchors")}, "layer", limit=4)
                                    if d:
                                        msgs.append("layer: not the source glyph: %s" % "; ".join(d))
                                else:
                                    # absent from this layer - or present without contours, which
                                    # makes the glyph object falsy so that the layer interpolates it
                                    # at its own location (the master again, by the model's rules)
                                    g, _ = model.glyph(st["glyph"], model.sources[li]["loc"])
                                    if g is not None:
                                        instmodel.compare_glyph(g, snap, model.rg, "layer/%s" % st["glyph"], msgs)
                                        stats["model_claims"] += 1
            elif st["op"] == "replace_layers":
                stats["replace"] += 1
                e = dict(st["edit"])
                e["layer"] = e["layer"] % len(model.sources)
                sysm.apply_edit(e)
                model.apply_edit(e)
                edits.append(e)
                ev["outcome"] = "ok"
            elif st["op"] == "mutate_result":
                if results:
                    _scribble(results[st["which"] % len(results)])
                    stats["mutations"] += 1
                ev["outcome"] = "ok"
            # oracle 4: generating instances never alters the sources
            sd = sysm.world.source_diffs()
            if sd:
                msgs.append("sources: altered: %s" % "; ".join(sd[:6]))
                sysm.world.rebase()
            if msgs:
                ev["violations"] = msgs
                violations.append({"step": i, "paths": msgs, "sig": sorted({m.split(":")[0].split("/")[0] for m in msgs})})
            events.append(ev)
    finally:
        sysm.close()
    return {"events": events, "violations": violations, "stats": stats, "known": []}


def violation_pred(sig):
    sigset = set(sig)

    def fails(scn):
        r = execute(scn)
        return any(sigset & set(v["sig"]) for v in r["violations"])

    return fails


def run_seed(seed, profile=None):
    scn = gen_scenario(seed, profile)
    res = execute(scn)
    out = {"seed": seed, "violations": [{"scenario": scn, "violation": v, "pass": "history"} for v in res["violations"]],
           "stats": res["stats"], "sample": None}
    distinct = set()
    for st, ev in zip(scn["steps"], res["events"]):
        if ev.get("outcome") == "ok" and st["op"] in ("instance", "glyph_instance", "layer_get"):
            distinct.add((st["op"], repr(sorted((st.get("loc") or {}).items())), st.get("glyph"), scn["round_geometry"],
                          corpusworlds.describe(scn["world"]["spec"]), scn["mat"]["mode"]))
    out["stats"]["distinct"] = sorted(distinct, key=repr)
    out["stats"]["interleavings"] = [gen07._digest([scn["mat"]["mode"], scn["round_geometry"]] + [
        [st["op"], (st.get("edit") or {}).get("kind"), bool(st.get("fault")), (ev.get("outcome") or "")[:4]]
        for st, ev in zip(scn["steps"], res["events"])])]
    out["scenario_digest"] = gen07._digest(scn)
    out["log_digest"] = gen07._digest([[e.get("op"), e.get("outcome"), e.get("fired"), e.get("violations")]
                                       for e in res["events"]])
    if seed % 61 == 0:
        out["sample"] = {"seed": seed, "world": corpusworlds.describe(scn["world"]["spec"]),
                         "round_geometry": scn["round_geometry"], "steps": scn["steps"],
                         "outcomes": [e.get("outcome") for e in res["events"]]}
    return out
