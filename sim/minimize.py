"""Delta-debugging minimiser over JSON scenarios.  ``fails(scn)`` must return
True while the *same violation class* persists.  Deterministic; bounded by an
execution budget and a wall-clock cap (the wall clock only bounds work, it never
influences which candidate is kept)."""
from __future__ import annotations

import copy
import time


class Budget:
    def __init__(self, max_runs=200, max_s=90.0):
        self.max_runs = max_runs
        self.deadline = time.monotonic() + max_s
        self.runs = 0

    def ok(self):
        return self.runs < self.max_runs and time.monotonic() < self.deadline


def _try(scn, fails, budget):
    if not budget.ok():
        return False
    budget.runs += 1
    try:
        return bool(fails(scn))
    except Exception:
        return False


def _drop_glyph(fam, name):
    """Remove glyph ``name`` from every master, cleaning up references."""
    fam = copy.deepcopy(fam)
    for m in fam["masters"]:
        if name in (m.get("features") or ""):
            return None
        m["glyphs"].pop(name, None)
        m["glyph_order"] = [n for n in m.get("glyph_order", []) if n != name]
        for g in list(m["glyphs"].values()) + [g for l in m.get("layers", {}).values() for g in l.values()]:
            g["components"] = [c for c in g["components"] if c[0] != name]
        for l in m.get("layers", {}).values():
            l.pop(name, None)
        m["kerning"] = [k for k in m["kerning"] if name not in (k[0], k[1])]
        for gn in list(m["groups"]):
            m["groups"][gn] = [x for x in m["groups"][gn] if x != name]
    for r in fam.get("rules", []):
        r["subs"] = [s for s in r["subs"] if name not in s]
    if not fam["masters"][0]["glyphs"]:
        return None
    return fam


def shrink_world(scn, fails, budget, index=None):
    if "worlds" in scn and index is None:
        for k in range(len(scn["worlds"])):
            scn = shrink_world(scn, fails, budget, index=k)
        return scn
    spec = scn["worlds"][index] if index is not None else scn["world"]["spec"]
    if "corpus" in spec:
        return scn

    def with_spec(new):
        s = copy.deepcopy(scn)
        if index is not None:
            s["worlds"][index] = new
        else:
            s["world"]["spec"] = new
        s["id"] = None  # disable image cache
        return s

    # masters
    while len(spec["masters"]) > 1 and budget.ok():
        new = copy.deepcopy(spec)
        new["masters"].pop()
        new["sparse"] = [s for s in new.get("sparse", []) if s["master"] < len(new["masters"])]
        new["source_order"] = None
        nm = len(new["masters"])
        cand = with_spec(new)
        for st in cand["steps"]:
            if "fonts" in st:
                st["fonts"] = [i for i in st["fonts"] if i < nm] or [0]
            if st.get("font", 0) >= nm:
                st["font"] = 0
        if _try(cand, fails, budget):
            spec, scn = new, cand
        else:
            break
    for key in ("sparse", "rules", "instances", "variable_fonts"):
        if spec.get(key) and budget.ok():
            new = copy.deepcopy(spec)
            new[key] = []
            if key == "sparse":
                new["source_order"] = None
                for m in new["masters"]:
                    for ln in [s["layer"] for s in spec["sparse"]]:
                        m["layers"].pop(ln, None)
            cand = with_spec(new)
            if _try(cand, fails, budget):
                spec, scn = new, cand
    if spec.get("dslib") and budget.ok():
        new = copy.deepcopy(spec)
        new["dslib"] = {}
        cand = with_spec(new)
        if _try(cand, fails, budget):
            spec, scn = new, cand
    # per-master fields
    for field, empty in (("features", ""), ("kerning", []), ("groups", {}), ("data", {}), ("layers", {})):
        if not budget.ok():
            break
        if any(m.get(field) for m in spec["masters"]):
            new = copy.deepcopy(spec)
            for m in new["masters"]:
                m[field] = copy.deepcopy(empty)
            if field == "layers":
                new["sparse"] = []
            cand = with_spec(new)
            if _try(cand, fails, budget):
                spec, scn = new, cand
    for k in list(spec["masters"][0]["lib"]):
        if not budget.ok():
            break
        new = copy.deepcopy(spec)
        for m in new["masters"]:
            m["lib"].pop(k, None)
        cand = with_spec(new)
        if _try(cand, fails, budget):
            spec, scn = new, cand
    for k in list(spec["masters"][0]["info"]):
        if k in ("unitsPerEm", "familyName", "styleName") or not budget.ok():
            continue
        new = copy.deepcopy(spec)
        for m in new["masters"]:
            m["info"].pop(k, None)
        cand = with_spec(new)
        if _try(cand, fails, budget):
            spec, scn = new, cand
    for name in list(spec["masters"][0]["glyphs"]):
        if not budget.ok():
            break
        new = _drop_glyph(spec, name)
        if new is None:
            continue
        cand = with_spec(new)
        for st in cand["steps"]:
            o = st.get("opts", {})
            for key in ("skipExportGlyphs", "glyphOrder"):
                if key in o:
                    o[key] = [n for n in o[key] if n != name]
        if _try(cand, fails, budget):
            spec, scn = new, cand
    # per-glyph detail
    for name in list(spec["masters"][0]["glyphs"]):
        for field in ("anchors", "lib", "contours", "components", "unicodes"):
            if not budget.ok():
                break
            if not any(m["glyphs"][name].get(field) for m in spec["masters"] if name in m["glyphs"]):
                continue
            new = copy.deepcopy(spec)
            for m in new["masters"]:
                if name in m["glyphs"]:
                    m["glyphs"][name][field] = {} if field == "lib" else []
            cand = with_spec(new)
            if _try(cand, fails, budget):
                spec, scn = new, cand
    return scn


def minimise(scn, fails, fail_step=None, max_runs=200, max_s=90.0, extra_passes=()):
    """Return (minimised scenario, runs used)."""
    budget = Budget(max_runs, max_s)
    cur = copy.deepcopy(scn)
    # 1. truncate
    if fail_step is not None and fail_step + 1 < len(cur["steps"]):
        cand = copy.deepcopy(cur)
        cand["steps"] = cand["steps"][: fail_step + 1]
        if _try(cand, fails, budget):
            cur = cand
    # 2. drop steps, last to first (keep at least one)
    i = len(cur["steps"]) - 2
    while i >= 0 and budget.ok():
        cand = copy.deepcopy(cur)
        del cand["steps"][i]
        if _try(cand, fails, budget):
            cur = cand
        i -= 1
    # 3. drop faults, then move them earlier
    for i, st in enumerate(cur["steps"]):
        if st.get("fault") and budget.ok():
            cand = copy.deepcopy(cur)
            cand["steps"][i].pop("fault")
            if _try(cand, fails, budget):
                cur = cand
    # 4. options to defaults
    for i, st in enumerate(cur["steps"]):
        for k in list(st.get("opts", {})):
            if not budget.ok():
                break
            cand = copy.deepcopy(cur)
            cand["steps"][i]["opts"].pop(k)
            if _try(cand, fails, budget):
                cur = cand
        # elements of list-valued options (filters, writers, skip lists, ...)
        for k, v in list(cur["steps"][i].get("opts", {}).items()):
            if isinstance(v, list) and len(v) > 1:
                j = len(v) - 1
                while j >= 0 and budget.ok() and len(cur["steps"][i]["opts"][k]) > 1:
                    cand = copy.deepcopy(cur)
                    del cand["steps"][i]["opts"][k][j]
                    if _try(cand, fails, budget):
                        cur = cand
                    j -= 1
        for k in ("consume", "close", "inplace"):
            if k in cur["steps"][i] and budget.ok():
                cand = copy.deepcopy(cur)
                cand["steps"][i].pop(k)
                if _try(cand, fails, budget):
                    cur = cand
    # 5. materialisation / environment to canonical
    for key, val in (("mode", "u2mem"), ("order_key", None), ("perm_key", None), ("ds_names", True)):
        if cur.get("mat", {}).get(key, val) != val and budget.ok():
            cand = copy.deepcopy(cur)
            cand["mat"][key] = val
            if _try(cand, fails, budget):
                cur = cand
    for p in extra_passes:
        cur = p(cur, fails, budget)
    # 6. world
    cur = shrink_world(cur, fails, budget)
    # 7. fault earlier (binary search towards 1)
    for i, st in enumerate(cur["steps"]):
        f = st.get("fault")
        if f and isinstance(f.get("at"), int) and f["at"] > 1:
            lo, hi = 1, f["at"]
            while lo < hi and budget.ok():
                mid = (lo + hi) // 2
                cand = copy.deepcopy(cur)
                cand["steps"][i]["fault"]["at"] = mid
                if _try(cand, fails, budget):
                    hi = mid
                    cur = cand
                else:
                    lo = mid + 1
    return cur, budget.runs
