"""C14 - filters touch only what they are asked to, report what they changed,
never touch the source font given a separate glyph set, and keep no state.

History machine over long-lived filter objects: each object is invoked on several
fonts / master sets in a row (some invocations aborted by an injected crash) and
after every invocation its effect is compared with a *fresh* object of the same
description run on an identical copy of the inputs."""
from __future__ import annotations

import copy
import random

from . import corpusworlds, executor, findings, gen07, materialize, ops, seams, world
from .snapshot import diff, generalise, snap_font, snap_glyph

PROP = "C14"
UFO2FT = "com.github.googlei18n.ufo2ft."

GEOM_FIELDS = ("width", "height", "contours", "components", "anchors")


def snap_gs(gs):
    return {n: snap_glyph(gs[n], full=False) for n in gs.keys()}


def geom(g):
    return {k: g[k] for k in GEOM_FIELDS}


# ----------------------------------------------------------------- filter descriptors

STATIC_FILTERS = [
    "CubicToQuadraticFilter", "DecomposeComponentsFilter", "DecomposeTransformedComponentsFilter",
    "DottedCircleFilter", "ExplodeColorLayerGlyphsFilter", "FlattenComponentsFilter",
    "PropagateAnchorsFilter", "RemoveOverlapsFilter", "ReverseContourDirectionFilter",
    "SkipExportGlyphsFilter", "SortContoursFilter", "TransformationsFilter",
]
I_FILTERS = [
    "DecomposeComponentsIFilter", "DecomposeTransformedComponentsIFilter", "FlattenComponentsIFilter",
    "PropagateAnchorsIFilter", "SkipExportGlyphsIFilter",
]
# filters whose __call__ does not consult include/exclude at all
NO_INCLUDE = ("DottedCircleFilter",)
# filters whose final pruning loop ignores include/exclude (open finding
# KF-C14-skipexport-prune-scope); their decomposition step does honour it
PRUNING = ("SkipExportGlyphsFilter", "SkipExportGlyphsIFilter")


def gen_filter(rng, cls, names, quad=False, bases=()):
    d = {"cls": cls}
    if cls == "TransformationsFilter":
        d["kwargs"] = rng.choice([{"OffsetX": 15}, {"OffsetY": -20, "OffsetX": 5}, {"ScaleX": 80, "ScaleY": 80},
                                  {"Slant": 10}, {"ScaleX": 50, "Origin": 0}, {"OffsetX": 0},
                                  {"ScaleX": 120, "ScaleY": 70, "OffsetX": -10, "Origin": 2}])
    elif cls == "CubicToQuadraticFilter":
        d["kwargs"] = rng.choice([{}, {"reverseDirection": False}, {"allQuadratic": False},
                                  {"conversionError": 0.002}, {"rememberCurveType": True},
                                  {"rememberCurveType": True, "reverseDirection": False}])
    elif cls == "RemoveOverlapsFilter":
        d["kwargs"] = {"backend": "pathops" if quad or rng.random() < 0.5 else "booleanOperations"}
    elif cls == "DottedCircleFilter":
        d["kwargs"] = rng.choice([{}, {"margin": 60, "dots": 8}])
        d["pre"] = True
    elif cls in ("SkipExportGlyphsFilter", "SkipExportGlyphsIFilter"):
        sub = [n for n in names if n != ".notdef"]
        rng.shuffle(sub)
        d["args"] = [sub[: rng.randint(0, min(3, len(sub)))]]
        if bases and rng.random() < 0.6:
            # non-export glyphs that are really used as components (also at depth 2)
            bl = list(bases)
            rng.shuffle(bl)
            d["args"] = [bl[: rng.randint(1, 2)]]
    if "pre" not in d and rng.random() < 0.5:
        d["pre"] = rng.random() < 0.5
    if cls not in NO_INCLUDE and names:
        x = rng.random()
        sub = list(names)
        rng.shuffle(sub)
        sub = sub[: rng.randint(1, max(1, (len(sub) * 2) // 3))]
        if x < 0.04:
            d["include"] = []  # selects nothing
        elif x < 0.07:
            d["exclude"] = []  # excludes nothing
        elif x < 0.35:
            d["include"] = sub
        elif x < 0.6:
            d["exclude"] = sub
        elif x < 0.75:
            d["include_pred"] = rng.choice(["has_contours", "has_components", "has_anchors",
                                            "name_startswith:" + sub[0][:1]])
    return d


def included_names(desc, names, before=None):
    if "include_pred" in desc and before is not None:
        spec = desc["include_pred"]
        if spec == "has_contours":
            return {n for n in names if before[n]["contours"]}
        if spec == "has_components":
            return {n for n in names if before[n]["components"]}
        if spec == "has_anchors":
            return {n for n in names if before[n]["anchors"]}
        prefix = spec.split(":", 1)[1]
        return {n for n in names if n.startswith(prefix)}
    if "include" in desc:
        s = set(desc["include"])
        return {n for n in names if n in s}
    if "exclude" in desc:
        s = set(desc["exclude"])
        return {n for n in names if n not in s}
    return set(names)


def reachable(before, roots):
    """roots plus everything referenced through components (transitively)."""
    seen = set()
    todo = [r for r in roots if r in before]
    while todo:
        n = todo.pop()
        if n in seen:
            continue
        seen.add(n)
        for base, _tr, _id in before[n]["components"]:
            if base in before and base not in seen:
                todo.append(base)
    return seen


# ----------------------------------------------------------------- scenario generation


def gen_scenario(seed, profile=None):
    profile = profile or {}
    rng = random.Random(seed)
    nworlds = 1 if rng.random() < 0.5 else 2
    specs = []
    for _ in range(nworlds):
        x = rng.random()
        if x < 0.15:
            cw = rng.choice([w for w in corpusworlds.all_corpus_worlds()])
            specs.append(cw)
        else:
            force = []
            if rng.random() < 0.08:
                force.append("color")
            if rng.random() < 0.5:
                force.append("composites")
            specs.append(world.gen_family(rng, force=force, forbid=[f for f in ("color",) if f not in force] + ["discrete_axis"],
                                          max_glyphs=12, n_masters=rng.choice([1, 2, 2, 2, 3]),
                                          p_sparse=0.7))
    for sp in specs:
        # masters whose component trees differ: every UFO is valid on its own, the family
        # is not interpolatable - interpolatable filters are still handed such lists
        if "masters" in sp and len(sp["masters"]) > 1 and rng.random() < 0.1:
            g0 = sp["masters"][0]["glyphs"]
            used = {c[0] for g in g0.values() if g["components"] and not g["contours"] for c in g["components"]}
            cands = sorted(n for n in used if n in g0 and g0[n]["components"] and not g0[n]["contours"])
            if cands:
                n = cands[rng.randrange(len(cands))]
                k = rng.randrange(1, len(sp["masters"]))
                gk = sp["masters"][k]["glyphs"].get(n)
                if gk is not None:
                    gk["components"] = []
                    gk["contours"] = [[[40, 0, "line", False], [240, 0, "line", False],
                                       [240, 260, "line", False], [40, 260, "line", False]]]
                    sp.setdefault("features_on", []).append("diverging_trees")
    infos = [gen07.world_info(s) for s in specs]
    names = sorted(set().union(*[set(i["glyphs"]) for i in infos]))
    quad = any(("quadratic" in s.get("features_on", [])) or "corpus" in s for s in specs)
    bases = sorted({c[0] for sp in specs if "masters" in sp
                    for g in sp["masters"][0]["glyphs"].values() for c in g["components"]} - {".notdef"})
    nf = rng.randint(2, 4)
    filters = []
    for _ in range(nf):
        cls = rng.choice(STATIC_FILTERS + I_FILTERS if any(i["n_fonts"] > 1 or i["has_ds"] for i in infos)
                         else STATIC_FILTERS)
        filters.append(gen_filter(rng, cls, names, quad, bases))
    mat = {"mode": rng.choice(["u2mem", "u2mem", "dcmem", "u2lazy"]),
           "order_key": "o%d" % seed if rng.random() < 0.5 else None, "perm_key": None}
    steps = []
    n = rng.randint(4, 9)
    for _ in range(n):
        fi = rng.randrange(len(filters))
        d = filters[fi]
        wi = rng.randrange(nworlds)
        info = infos[wi]
        x = rng.random()
        if x < 0.3 and info["has_ds"]:
            kind = rng.choice(["ttf", "ttf", "otf"])
            k = rng.randint(0, 3)
            fl = [rng.randrange(len(filters)) for _ in range(k)]
            fl = [j for j in fl if filters[j]["cls"] not in ("SkipExportGlyphsFilter", "SkipExportGlyphsIFilter")]
            if rng.random() < 0.5:
                # a *post* filter that resolves components after the default filters ran
                # (it reads interpolated glyphs where a sparse master lacks a base)
                filters.append({"cls": rng.choice(["DecomposeComponentsFilter", "FlattenComponentsFilter",
                                                   "DecomposeTransformedComponentsFilter"]), "pre": False})
                fl.append(len(filters) - 1)
            gl = info["glyphs"]
            st = {"op": "preproc_run", "world": wi, "kind": kind, "filters": fl,
                  "ellipsis": rng.random() < 0.5,
                  "skip": rng.sample(gl, min(len(gl), rng.randint(0, 2))) if rng.random() < 0.4 else [],
                  "flatten": rng.random() < 0.3 and kind == "ttf",
                  "convertCubics": rng.random() < 0.8,
                  "warm": [[rng.choice(gl), rng.choice([0.0, 0.5, 1.0])] for _ in range(rng.randint(0, 3))]}
            steps.append(st)
            continue
        if d["cls"].endswith("IFilter"):
            if info["n_fonts"] < 1:
                continue
            st = {"op": "ifilter_call", "f": fi, "world": wi,
                  "instantiator": info["has_ds"] and rng.random() < 0.7,
                  "warm": [[rng.choice(info["glyphs"]), rng.choice([0.0, 0.5, 1.0])]
                           for _ in range(rng.randint(0, 2))]}
        else:
            st = {"op": "filter_call", "f": fi, "world": wi, "font": rng.randrange(info["n_fonts"]),
                  "glyphset": rng.choice(["copy", "copy", "copy", "none", "dict"])}
            if info["layers"] and rng.random() < 0.15:
                st["layer"] = rng.choice(info["layers"])
        if rng.random() < profile.get("p_fault", 0.15):
            st["fault"] = {"kind": "trace", "at": rng.randint(1, 120), "gran": rng.choice(["call", "line"])}
        steps.append(st)
    _revisit_after_category_edit(seed, specs, filters, steps)
    return {"id": "c14-%d" % seed, "seed": seed, "property": PROP, "worlds": specs, "mat": mat,
            "filters": filters, "steps": steps}


CATEGORIES_KEY = "public.openTypeCategories"


def _revisit_after_category_edit(seed, specs, filters, steps):
    """Some histories end with one PropagateAnchorsFilter object invoked twice on the same
    font, the caller having edited the font's ``public.openTypeCategories`` dict *in place*
    in between (a composite with anchors of its own becomes a mark - the filter then leaves
    it alone).  'No state from one invocation to the next' must survive that: the second
    result has to equal a fresh object's on the same, edited, font.  All choices come from a
    private PRNG, the shared stream (and every other history) is left as it was."""
    prng = random.Random("c14-revisit:%d" % seed)
    if prng.random() >= 0.15:
        return
    cands = [wi for wi, sp in enumerate(specs) if "masters" in sp]
    if not cands:
        return
    wi = cands[prng.randrange(len(cands))]
    sp = specs[wi]
    g0 = sp["masters"][0]["glyphs"]
    comps = sorted(n for n, g in g0.items() if g["components"] and not g["contours"] and n != ".notdef")
    if not comps:
        return
    with_anchor = [n for n in comps if g0[n]["anchors"]]
    n = (with_anchor or comps)[prng.randrange(len(with_anchor or comps))]
    for m in sp["masters"]:
        for lay in [m["glyphs"]] + list((m.get("layers") or {}).values()):
            g = lay.get(n)
            if g is not None and not g["anchors"]:
                g["anchors"].append(["top", (g["width"] // 2) or 100, 800])
        cats = m.setdefault("lib", {}).setdefault(CATEGORIES_KEY, {})
        if not cats:
            cats[sorted(g0)[0]] = "base"
        cats.pop(n, None)
    filters.append({"cls": "PropagateAnchorsFilter"})
    fi = len(filters) - 1
    font = prng.randrange(len(sp["masters"]))
    steps.append({"op": "filter_call", "f": fi, "world": wi, "font": font, "glyphset": "copy"})
    steps.append({"op": "filter_call", "f": fi, "world": wi, "font": font, "glyphset": "copy",
                  "cat_edit": {n: "mark"}})


# ----------------------------------------------------------------- execution


class Session:
    def __init__(self, scn, scratch_root=None):
        self.scn = scn
        self.scratch_root = scratch_root
        self.worlds = [self._mat(s) for s in scn["worlds"]]
        self.objs = {}

    def _mat(self, spec):
        m = self.scn["mat"]
        return materialize.materialize(spec, mode=m.get("mode", "u2mem"), order_key=m.get("order_key"),
                                       perm_key=m.get("perm_key"), scratch_root=self.scratch_root)

    def fresh_world(self, wi):
        return self._mat(self.scn["worlds"][wi])

    def filter_obj(self, fi):
        if fi not in self.objs:
            self.objs[fi] = ops.make_filter(self.scn["filters"][fi])
        return self.objs[fi]

    def close(self):
        for w in self.worlds:
            w.close()


def _instantiator(w, warm):
    from ufo2ft.instantiator import Instantiator

    inst = Instantiator.from_designspace(w.ds, round_geometry=False, do_info=False, do_kerning=False)
    _warm(inst, warm)
    return inst


def _warm(inst, warm):
    """Another consumer fills the variator cache before the filter runs."""
    n = 0
    for name, t in warm or []:
        if name not in inst.glyph_names:
            continue
        loc = {}
        for ax, (lo, dflt, hi) in inst.axis_bounds.items():
            loc[ax] = lo + (hi - lo) * t
        try:
            inst.generate_glyph_instance(name, inst.normalize(loc))
            n += 1
        except Exception:  # noqa: BLE001 - incompatible glyphs are fine here
            pass
    return n


def _glyphsets(fonts, layer_names=None):
    from ufo2ft.util import _GlyphSet

    layer_names = layer_names or [None] * len(fonts)
    return [_GlyphSet.from_layer(f, ln, copy=True) for f, ln in zip(fonts, layer_names)]


def _do_filter_call(filt, w, st, fault=None):
    """Returns (outcome, returned, before, after, glyphset_was_separate)."""
    from ufo2ft.util import _GlyphSet

    font = w.fonts[st["font"] % len(w.fonts)]
    layer = st.get("layer")
    if layer is not None and layer not in [l.name for l in font.layers]:
        layer = None
    if st["glyphset"] == "copy":
        gs = _GlyphSet.from_layer(font, layer, copy=True)
        args = (font, gs)
    elif st["glyphset"] == "dict":
        # a plain mapping of glyph copies: no 'lib', no 'name' attribute
        gs = dict(_GlyphSet.from_layer(font, layer, copy=True))
        args = (font, gs)
    else:
        gs = None
        args = (font,)
    before = snap_gs(gs) if gs is not None else {g.name: snap_glyph(g, full=False) for g in font}
    tf = seams.TraceFault(fault) if fault else None
    ret = None
    fired = None
    # the caller's own in-place edit of the categories dict before this invocation; it is
    # taken back afterwards so that later steps (and their fresh-world references) see the
    # world as generated
    undo = []
    edit = st.get("cat_edit")
    if edit:
        cats = font.lib.get(CATEGORIES_KEY)
        if cats is None:
            font.lib[CATEGORIES_KEY] = dict(edit)
            undo.append(None)
        else:
            for k_, v_ in edit.items():
                undo.append((k_, cats[k_]) if k_ in cats else (k_,))
                cats[k_] = v_
    try:
        if tf is not None:
            with tf:
                ret = filt(*args)
        else:
            ret = filt(*args)
        outcome = "ok"
    except Exception as e:  # noqa: BLE001
        outcome = "exc:" + type(e).__name__
    finally:
        for u in undo:
            if u is None:
                font.lib.pop(CATEGORIES_KEY, None)
            elif len(u) == 2:
                font.lib[CATEGORIES_KEY][u[0]] = u[1]
            else:
                font.lib[CATEGORIES_KEY].pop(u[0], None)
    if tf is not None:
        fired = tf.fired
    after = snap_gs(gs) if gs is not None else {g.name: snap_glyph(g, full=False) for g in font}
    return outcome, (sorted(ret) if ret is not None else None), before, after, fired


def _do_ifilter_call(filt, w, st, fault=None):
    if w.ds is not None:
        fonts = [s.font for s in w.ds.sources]
        lns = [s.layerName for s in w.ds.sources]
    else:
        fonts = list(w.fonts)
        lns = [None] * len(fonts)
    gss = _glyphsets(fonts, lns)
    inst = None
    if st.get("instantiator") and w.ds is not None:
        try:
            inst = _instantiator(w, st.get("warm"))
        except Exception:  # noqa: BLE001 - e.g. no default source
            inst = None
    before = [snap_gs(g) for g in gss]
    tf = seams.TraceFault(fault) if fault else None
    ret = None
    try:
        if tf is not None:
            with tf:
                ret = filt(fonts, gss, inst)
        else:
            ret = filt(fonts, gss, inst)
        outcome = "ok"
    except Exception as e:  # noqa: BLE001
        outcome = "exc:" + type(e).__name__
    after = [snap_gs(g) for g in gss]
    return outcome, (sorted(ret) if ret is not None else None), before, after, (tf.fired if tf else None)


def _do_preproc(sess_filters, w, st, forced):
    """Run the real interpolatable pre-processor.  ``forced``: refresh the
    instantiator after every filter regardless of the reported set."""
    from ufo2ft.preProcessor import OTFInterpolatablePreProcessor, TTFInterpolatablePreProcessor

    cls = TTFInterpolatablePreProcessor if st["kind"] == "ttf" else OTFInterpolatablePreProcessor
    if forced:
        base = cls

        class Forced(base):  # noqa: D401
            """Reference run: after *every* filter a brand-new Instantiator is
            built over the current glyph sets, so nothing cached in the
            long-lived one (variators, interpolated layers) can be stale."""

            def _fresh_instantiator(self):
                from ufo2ft.instantiator import Instantiator

                if self.instantiator is not None:
                    inst = Instantiator.from_designspace(self._verif_ds, round_geometry=False,
                                                         do_info=False, do_kerning=False)
                    inst.replace_source_layers(self.glyphSets)
                    self.instantiator = inst

            def _update_instantiator(self):
                self._fresh_instantiator()

            def _run(self, *filters):
                r = super()._run(*filters)
                self._fresh_instantiator()
                return r

            def _run_interpolatable(self, f):
                r = super()._run_interpolatable(f)
                self._fresh_instantiator()
                return r

        Forced._verif_ds = w.ds
        cls = Forced
    ufos = [s.font for s in w.ds.sources]
    lns = [s.layerName for s in w.ds.sources]
    inst = _instantiator(w, st.get("warm"))
    fl = list(sess_filters)
    if st.get("ellipsis"):
        fl = [...] + fl
    kw = {}
    if st["kind"] == "ttf":
        kw["flattenComponents"] = bool(st.get("flatten"))
        kw["convertCubics"] = bool(st.get("convertCubics", True))
    pp = cls(ufos, layerNames=lns, skipExportGlyphs=list(st.get("skip") or []), filters=fl,
             instantiator=inst, **kw)
    gss = pp.process()
    return [snap_gs(g) for g in gss]


def _skip_list(desc):
    a = desc.get("args") or []
    return set(a[0] if a else (desc.get("kwargs") or {}).get("skipExportGlyphs") or [])


def check_scope_and_report(desc, before, after, returned, prefix="", known_out=None, allowed=None):
    """Oracles (c) scope and (d) report for one glyph set.  Returns messages;
    differences explained by a listed open finding go to ``known_out``."""
    out = []
    names = set(before)
    changed = {n for n in names & set(after) if geom(before[n]) != geom(after[n])}
    added = set(after) - names
    removed = names - set(after)
    if returned is not None:
        missing = (changed | added | removed) - set(returned)
        if missing:
            out.append("%sreport: not reported as modified: %s" % (prefix, sorted(missing)))
    if desc["cls"] not in NO_INCLUDE:
        if allowed is None:
            inc = included_names(desc, names, before)
            allowed = reachable(before, inc)
        anychg = {n for n in names & set(after) if before[n] != after[n]}
        outside = (anychg | removed) - allowed
        if desc["cls"] in PRUNING and known_out is not None:
            pruned = (removed & _skip_list(desc)) - allowed
            if pruned and findings.is_open("KF-C14-skipexport-prune-scope"):
                known_out.append(("KF-C14-skipexport-prune-scope",
                                  ["%sscope: pruned although outside the include scope: %s" % (prefix, sorted(pruned))]))
                outside -= pruned
        if outside:
            out.append("%sscope: changed although neither included nor a component of an included glyph: %s"
                       % (prefix, sorted(outside)))
    return out


def execute(scn, scratch_root=None, classify=True):
    executor.quiet()
    sess = Session(scn, scratch_root)
    events, violations, known = [], [], []
    stats = {"calls": 0, "faulted": 0, "fired": 0, "preproc": 0, "reused": 0, "warm": 0,
             "interpolated": 0, "modified_nonempty": 0, "by_filter": {}}
    used = set()
    try:
        for i, st in enumerate(scn["steps"]):
            ev = {"i": i, "op": st["op"]}
            msgs = []
            wi = st["world"]
            w = sess.worlds[wi]
            if st["op"] in ("filter_call", "ifilter_call"):
                desc = scn["filters"][st["f"]]
                filt = sess.filter_obj(st["f"])
                if st["f"] in used:
                    stats["reused"] += 1
                used.add(st["f"])
                stats["by_filter"][desc["cls"]] = stats["by_filter"].get(desc["cls"], 0) + 1
                fault = st.get("fault")
                inplace_mode = st["op"] == "filter_call" and st["glyphset"] == "none"
                target_w = sess.fresh_world(wi) if inplace_mode else w
                try:
                    if st["op"] == "filter_call":
                        oc, ret, before, after, fired = _do_filter_call(filt, target_w, st, fault)
                    else:
                        oc, ret, before, after, fired = _do_ifilter_call(filt, target_w, st, fault)
                    stats["calls"] += 1
                    ev["outcome"], ev["returned"], ev["fired"] = oc, ret, fired
                    if ret:
                        stats["modified_nonempty"] += 1
                    if fault:
                        stats["faulted"] += 1
                        if fired:
                            stats["fired"] += 1
                    if not fault or not fired:
                        # (a) fresh object on identical copy of the inputs
                        fw = sess.fresh_world(wi)
                        try:
                            ff = ops.make_filter(desc)
                            if st["op"] == "filter_call":
                                oc2, ret2, b2, a2, _ = _do_filter_call(ff, fw, st)
                            else:
                                oc2, ret2, b2, a2, _ = _do_ifilter_call(ff, fw, st)
                        finally:
                            fw.close()
                        if oc != oc2:
                            msgs.append("state: outcome %s but a fresh filter object gives %s" % (oc, oc2))
                        elif ret != ret2:
                            msgs.append("state: returned %s but a fresh filter object returns %s" % (ret, ret2))
                        else:
                            d = diff(a2, after, "glyphset", limit=6)
                            if d:
                                msgs.append("state: result differs from a fresh filter object: %s" % "; ".join(d))
                        if oc == "ok":
                            kout = [] if classify else None
                            if st["op"] == "filter_call":
                                msgs += check_scope_and_report(desc, before, after, ret, known_out=kout)
                            else:
                                # an interpolatable filter selects by *name*: a glyph is included as
                                # soon as the predicate holds for it in any master
                                # (BaseIFilter.__call__: any(include(g) for g in glyphs)), and it is
                                # then processed in every master - scope is the union over the masters
                                inc_u = set()
                                for b in before:
                                    inc_u |= included_names(desc, set(b), b)
                                allowed_u = set()
                                for b in before:
                                    allowed_u |= reachable(b, inc_u)
                                for k, (b, a) in enumerate(zip(before, after)):
                                    msgs += check_scope_and_report(desc, b, a, ret, "master%d " % k, known_out=kout,
                                                                   allowed=allowed_u if desc["cls"] not in NO_INCLUDE else None)
                            for fid, ps in kout or []:
                                known.append({"step": i, "finding": fid, "paths": ps})
                    # (b) source untouched when a separate glyph set was passed
                    if not inplace_mode:
                        sd = target_w.source_diffs()
                        if sd:
                            ev["source_diffs"] = sd
                            kn, unk = ({}, sd)
                            if classify:
                                kn, unk = findings.classify(PROP, sd, target_w.twins_orig,
                                                            {"opts": {"filters": [desc]}}, ())
                            for fid, ps in kn.items():
                                known.append({"step": i, "finding": fid, "paths": ps})
                            if unk:
                                msgs.append("source: font touched although a separate glyph set was given: %s"
                                            % "; ".join(unk[:6]))
                            # continue from pristine sources: the fresh-object reference
                            # of later steps is computed on pristine inputs
                            target_w.close()
                            sess.worlds[wi] = sess.fresh_world(wi)
                finally:
                    if inplace_mode:
                        target_w.close()
            elif st["op"] == "preproc_run":
                if w.ds is None:
                    ev["outcome"] = "skipped"
                    events.append(ev)
                    continue
                stats["preproc"] += 1
                fobjs = [sess.filter_obj(j) for j in st["filters"]]
                for j in st["filters"]:
                    used.add(j)
                try:
                    got = _do_preproc(fobjs, w, st, forced=False)
                    oc = "ok"
                except Exception as e:  # noqa: BLE001
                    got, oc = None, "exc:" + type(e).__name__
                ev["outcome"] = oc
                fw = sess.fresh_world(wi)
                try:
                    ffs = [ops.make_filter(scn["filters"][j]) for j in st["filters"]]
                    try:
                        ref = _do_preproc(ffs, fw, st, forced=True)
                        oc2 = "ok"
                    except Exception as e:  # noqa: BLE001
                        ref, oc2 = None, "exc:" + type(e).__name__
                finally:
                    fw.close()
                if oc != oc2:
                    msgs.append("coherence: outcome %s but with forced refresh and fresh filter objects %s" % (oc, oc2))
                elif got is not None:
                    d = diff(ref, got, "glyphsets", limit=6)
                    if d:
                        msgs.append("coherence: glyph sets differ from the run that refreshes the instantiator "
                                    "after every filter (fresh filter objects): %s" % "; ".join(d))
                sd = w.source_diffs()
                if sd:
                    kn, unk = ({}, sd)
                    if classify:
                        descs = [scn["filters"][j] for j in st["filters"]]
                        kn, unk = findings.classify(PROP, sd, w.twins_orig, {"opts": {"filters": descs}}, ())
                    for fid, ps in kn.items():
                        known.append({"step": i, "finding": fid, "paths": ps})
                    if unk:
                        msgs.append("source: pre-processor touched the sources: %s" % "; ".join(unk[:6]))
                    w.close()
                    sess.worlds[wi] = sess.fresh_world(wi)
            if msgs:
                ev["violations"] = msgs
                violations.append({"step": i, "paths": msgs,
                                   "sig": sorted({_sig(m, scn, st) for m in msgs})})
            events.append(ev)
    finally:
        sess.close()
    return {"events": events, "violations": violations, "known": known, "stats": stats}


def _sig(msg, scn, st):
    cls = scn["filters"][st["f"]]["cls"] if "f" in st else "preproc"
    return "%s/%s" % (msg.split(":")[0].replace("master0 ", "").replace("master1 ", "").replace("master2 ", ""), cls)


def violation_pred(sig):
    sigset = set(sig)

    def fails(scn):
        r = execute(scn)
        return any(sigset & set(v["sig"]) for v in r["violations"])

    return fails


def run_seed(seed, profile=None):
    scn = gen_scenario(seed, profile)
    res = execute(scn)
    out = {"seed": seed, "violations": [{"scenario": scn, "violation": v, "pass": "history"}
                                       for v in res["violations"]],
           "stats": res["stats"], "known": {}, "sample": None}
    for k in res["known"]:
        out["known"][k["finding"]] = out["known"].get(k["finding"], 0) + 1
    distinct = set()
    for st, ev in zip(scn["steps"], res["events"]):
        if ev.get("outcome") == "ok":
            cls = scn["filters"][st["f"]]["cls"] if "f" in st else "preproc:" + st.get("kind", "")
            d = scn["filters"][st["f"]] if "f" in st else {}
            distinct.add((st["op"], cls, "include" in d, "exclude" in d, bool(ev.get("returned")),
                          st.get("glyphset"), corpusworlds.describe(scn["worlds"][st["world"]])))
    out["stats"]["distinct"] = sorted(distinct, key=repr)
    out["stats"]["interleavings"] = [gen07._digest([scn["mat"]["mode"]] + [
        [st["op"], scn["filters"][st["f"]]["cls"] if "f" in st else st.get("kind"), bool(st.get("fault")),
         (ev.get("outcome") or "")[:4]] for st, ev in zip(scn["steps"], res["events"])])]
    out["scenario_digest"] = gen07._digest(scn)
    out["log_digest"] = gen07._digest([[e.get("op"), e.get("outcome"), e.get("returned"), e.get("fired"),
                                        e.get("violations")] for e in res["events"]])
    if seed % 53 == 0:
        out["sample"] = {"seed": seed, "filters": scn["filters"], "steps": scn["steps"],
                         "worlds": [corpusworlds.describe(s) for s in scn["worlds"]],
                         "outcomes": [[e.get("outcome"), e.get("returned")] for e in res["events"]]}
    return out
