"""C07 - compiling never modifies the caller's sources unless inplace is requested.

Scenario generation (seeded), fault attachment from a dry run's measured
extents, per-seed execution, and exhaustive crash-point enumeration."""
from __future__ import annotations

import copy
import random

from . import corpusworlds, executor, findings, materialize, ops, world

PROP = "C07"

MAT_WEIGHTS = [("u2lazy", 34), ("u2mem", 20), ("u2eager", 8), ("dcmem", 14), ("dcdisk", 9),
               ("u2disk", 15)]
LEAKY = ("math", "color", "dottedcircle")  # features that reach known-finding call sites

TZS = ["UTC", "Asia/Tokyo", "America/St_Johns", "Pacific/Kiritimati"]


def _wchoice(rng, pairs):
    tot = sum(w for _, w in pairs)
    x = rng.random() * tot
    for v, w in pairs:
        x -= w
        if x <= 0:
            return v
    return pairs[-1][0]


def pick_world(rng, p_corpus=0.22, p_leaky=0.12, max_glyphs=14):
    if rng.random() < p_corpus:
        return rng.choice(corpusworlds.all_corpus_worlds())
    if rng.random() < p_leaky:
        k = rng.randint(1, 2)
        force = rng.sample(LEAKY, k)
        forbid = [f for f in LEAKY if f not in force]
    else:
        force, forbid = [], list(LEAKY)
    return world.gen_family(rng, force=force, forbid=forbid, max_glyphs=max_glyphs)


_INFO_CACHE = {}


def world_info(spec, key=None):
    """Facts the option generator needs (glyph names, layers, VF names)."""
    if key is not None and key in _INFO_CACHE:
        return _INFO_CACHE[key]
    w = materialize.materialize(spec, mode="u2mem")
    try:
        f0 = w.fonts[0]
        info = {
            "glyphs": sorted(f0.keys()),
            "n_fonts": len(w.fonts),
            "layers": [l.name for l in f0.layers if l.name != f0.layers.defaultLayer.name],
            "has_ds": w.ds is not None,
            "n_sources": len(w.ds.sources) if w.ds is not None else 0,
            "vf_names": [],
            "sparse": bool(w.ds is not None and any(s.layerName for s in w.ds.sources)),
            "lib_skip": bool(any(f.lib.get("public.skipExportGlyphs") for f in w.fonts)
                             or (w.ds is not None and w.ds.lib.get("public.skipExportGlyphs"))),
            "lib_filters": sorted({str(d.get("name", "")).replace(" ", "").lower()
                                   for f in w.fonts
                                   for d in f.lib.get("com.github.googlei18n.ufo2ft.filters", [])}),
        }
        if w.ds is not None:
            info["vf_names"] = [vf.name for vf in w.ds.getVariableFonts()] if w.ds.axes else []
    finally:
        w.close()
    if key is not None:
        if len(_INFO_CACHE) > 128:
            _INFO_CACHE.clear()
        _INFO_CACHE[key] = info
    return info


def gen_steps(rng, info, n, p_opt, allow_gen_interleave=True, p_reopen=0.15):
    steps = []
    frefs, wrefs = [], []
    open_gens = []
    for _ in range(n):
        if open_gens and rng.random() < 0.5:
            g = open_gens.pop(0)
            steps.append({"op": "gen_next", "gen": g, "n": rng.randint(1, 2),
                          "close": rng.random() < 0.4})
            continue
        if steps and rng.random() < p_reopen:
            steps.append({"op": "reopen"})
            open_gens = []
            continue
        cands = [("compileTTF", 24), ("compileOTF", 24), ("compileInterpolatableTTFs", 10)]
        if info["has_ds"]:
            # the singular functions reject designspaces that define several variable fonts
            one, many = (9, 5) if len(info.get("vf_names") or []) <= 1 else (2, 12)
            cands += [("compileInterpolatableTTFsFromDS", 8), ("compileInterpolatableOTFsFromDS", 7),
                      ("compileVariableTTF", one), ("compileVariableTTFs", many)]
            if info["n_sources"] >= 2:
                cands += [("compileVariableCFF2", one - 1), ("compileVariableCFF2s", many - 1)]
        op = _wchoice(rng, cands)
        st = {"op": op, "opts": ops.gen_opts(rng, op, info, frefs, wrefs, p_opt)}
        if op in ops.STATIC_OPS:
            st["font"] = rng.randrange(info["n_fonts"])
        if op == "compileInterpolatableTTFs":
            idx = list(range(info["n_fonts"]))
            if len(idx) > 1 and rng.random() < 0.2:
                idx = idx[:-1]
            st["fonts"] = idx
            if info["layers"] and rng.random() < 0.35:
                # a sparse master given through the list API: (font, layerName)
                st["fonts"] = idx + [0]
                st["opts"]["layerNames"] = [None] * len(idx) + [rng.choice(info["layers"])]
            x = rng.random()
            if x < 0.35 and allow_gen_interleave:
                st["consume"] = rng.randint(0, len(idx))
                st["close"] = rng.random() < 0.5
                if not st["close"]:
                    st["gen"] = "g%d" % len(steps)
                    open_gens.append(st["gen"])
        steps.append(st)
    return steps


def gen_scenario(seed, profile=None):
    rng = random.Random(seed)
    profile = profile or {}
    spec = pick_world(rng, p_corpus=profile.get("p_corpus", 0.27),
                      p_leaky=profile.get("p_leaky", 0.12),
                      max_glyphs=profile.get("max_glyphs", 14))
    sid = "c07-%d" % seed
    info = world_info(spec, key=sid)
    mode = _wchoice(rng, MAT_WEIGHTS)
    mat = {"mode": mode, "order_key": "o%d" % seed if rng.random() < 0.7 else None,
           "perm_key": "p%d" % seed if rng.random() < 0.6 else None}
    if info["has_ds"]:
        mat["ds_names"] = rng.choice([True, True, False, [True, False]])
    env = {"sde": rng.choice([None, 0, 1700000000, 4102444800]), "tz": rng.choice(TZS),
           "clock": {"start": rng.choice([0, 1.7e9, 2.2e9, 4.1e9]),
                     "jumps": [rng.choice([1, 60, 86400, -3600, 0.5]) for _ in range(3)]}}
    n = rng.randint(profile.get("min_steps", 3), profile.get("max_steps", 7))
    p_opt = rng.choice([0.1, 0.25, 0.4, 0.6])
    # lazily loaded fonts only read the disk on first use: reopen more often there
    steps = gen_steps(rng, info, n, p_opt, p_reopen=0.4 if mode in ("u2lazy", "u2disk") else 0.12)
    return {"id": sid, "seed": seed, "property": PROP, "world": {"spec": spec}, "mat": mat,
            "env": env, "steps": steps}, rng


FAULT_KINDS = ("trace", "mem", "intr", "io", "short", "subproc", "stream", "tmpfile", "cancel")


def attach_faults(scn, events, rng, p_fault=0.5, enabled=None):
    """Attach at most one fault per step, drawn inside the step's measured
    fault-free extent so that it fires instead of idling past the end."""
    enabled = set(enabled or FAULT_KINDS)
    scn = copy.deepcopy(scn)
    n = 0
    for st, ev in zip(scn["steps"], events):
        if st["op"] in ("reopen",) or rng.random() > p_fault:
            continue
        ext = ev.get("extent") or {}
        cands = []
        if ext.get("calls"):
            if "trace" in enabled:
                cands.append(("trace", 45))
            if "mem" in enabled:
                cands.append(("mem", 8))
            if "intr" in enabled:
                cands.append(("intr", 8))
        if ext.get("io"):
            if "io" in enabled:
                cands.append(("io", 70))
            if "short" in enabled:
                cands.append(("short", 18))
        if ext.get("subproc") and "subproc" in enabled:
            cands.append(("subproc", 14))
        if ext.get("stream") and "stream" in enabled:
            cands.append(("stream", 14))
        if ext.get("tmpfile") and "tmpfile" in enabled:
            cands.append(("tmpfile", 30))
        if st["op"] == "compileInterpolatableTTFs" and "cancel" in enabled:
            cands.append(("cancel", 20))
        if not cands:
            continue
        kind = _wchoice(rng, cands)
        if kind in ("trace", "mem", "intr"):
            gran = "line" if rng.random() < 0.3 else "call"
            if gran == "line":
                # extent was measured in calls; lines are ~8x denser
                at = rng.randint(1, max(1, ext["calls"] * 8))
            else:
                at = rng.randint(1, ext["calls"])
            st["fault"] = {"kind": kind, "at": at, "gran": gran}
        elif kind in ("io", "short"):
            st["fault"] = {"kind": kind, "at": rng.randint(1, ext["io"])}
        elif kind == "subproc":
            st["fault"] = {"kind": kind, "at": rng.randint(1, ext["subproc"]),
                           "mode": rng.choice(["oserror", "called"])}
        elif kind == "stream":
            st["fault"] = {"kind": kind, "at": rng.randint(0, max(0, ext["stream"] - 1))}
        elif kind == "tmpfile":
            st["fault"] = {"kind": kind, "at": 1}
        elif kind == "cancel":
            nf = len(st.get("fonts") or [0])
            st["consume"] = rng.randint(0, max(0, nf - 1))
            st["close"] = True
            st.pop("gen", None)
            st["fault"] = {"kind": "cancel", "at": st["consume"]}
        n += 1
    return scn, n


def classify(paths, twins, step, history):
    return findings.classify(PROP, paths, twins, step, history)


def execute(scn, scratch_root=None):
    return executor.run_scenario(scn, classify=classify, scratch_root=scratch_root)


def violation_pred(sig):
    """Predicate for the minimiser: same property, overlapping signature."""
    sigset = set(sig)

    def fails(scn):
        r = execute(scn)
        for v in r["violations"]:
            if sigset & set(v["sig"]):
                return True
        return False

    return fails


def summarise_events(scn, res, stats):
    """Accumulate coverage counters from one executed scenario."""
    for st, ev in zip(scn["steps"], res["events"]):
        if st["op"] == "reopen":
            stats["reopens"] = stats.get("reopens", 0) + 1
            continue
        stats["steps"] = stats.get("steps", 0) + 1
        f = st.get("fault")
        kind = f["kind"] if f else None
        if f:
            stats.setdefault("faults_configured", {}).setdefault(kind, 0)
            stats["faults_configured"][kind] += 1
        fired = ev.get("fired")
        if fired:
            stats.setdefault("faults_fired", {}).setdefault(fired.get("kind", kind), 0)
            stats["faults_fired"][fired.get("kind", kind)] += 1
            site = fired.get("site") or fired.get("path") or fired.get("kind")
            stats.setdefault("sites", set()).add(str(site))
        oc = ev.get("outcome") or "?"
        stats.setdefault("outcomes", {}).setdefault(oc, 0)
        stats["outcomes"][oc] += 1
        optsig = ",".join(sorted((st.get("opts") or {}).keys()))
        if (ev.get("extent", {}).get("calls") or 0) >= 50 or fired:
            stats.setdefault("distinct", set()).add(
                (st["op"], optsig, str(kind), str((fired or {}).get("site") or (fired or {}).get("path")),
                 scn["mat"]["mode"], corpusworlds.describe(scn["world"]["spec"])))
        if ev.get("extent", {}).get("io"):
            stats["lazy_io_steps"] = stats.get("lazy_io_steps", 0) + 1
        if st["op"] == "gen_next" and oc != "skipped":
            stats["gen_resumed"] = stats.get("gen_resumed", 0) + 1
        if st["op"] == "compileInterpolatableTTFs" and st.get("consume", "all") != "all":
            stats["gen_abandoned_or_parked"] = stats.get("gen_abandoned_or_parked", 0) + 1
    seq = [(st["op"], (st.get("fault") or {}).get("kind"), (ev.get("outcome") or "")[:4])
           for st, ev in zip(scn["steps"], res["events"])]
    stats.setdefault("interleavings", set()).add(_digest([scn["mat"]["mode"], seq]))
    stats["sim_seconds"] = stats.get("sim_seconds", 0.0) + res["clock"].get("covered_s", 0.0)
    stats["clock_reads"] = stats.get("clock_reads", 0) + res["clock"].get("reads", 0)
    for k in res["known"]:
        stats.setdefault("known", {}).setdefault(k["finding"], 0)
        stats["known"][k["finding"]] += 1


def run_seed(seed, profile=None, scratch_root=None):
    """One simulated run (fault-free pass, then a fault-injecting pass over the
    same scenario).  Returns a picklable summary."""
    profile = profile or {}
    scn, rng = gen_scenario(seed, profile)
    stats = {}
    out = {"seed": seed, "violations": [], "runs": 0, "sample": None, "scenario_digest": _digest(scn)}
    res = execute(scn, scratch_root)
    out["runs"] += 1
    summarise_events(scn, res, stats)
    for v in res["violations"]:
        out["violations"].append({"scenario": scn, "violation": v, "pass": "fault-free"})
    if rng.random() < profile.get("p_fault_run", 0.65) and not out["violations"]:
        fscn, nf = attach_faults(scn, res["events"], rng, p_fault=rng.choice([0.3, 0.5, 0.8]),
                                 enabled=profile.get("fault_kinds"))
        if nf:
            fscn["id"] = scn["id"]
            fres = execute(fscn, scratch_root)
            out["runs"] += 1
            summarise_events(fscn, fres, stats)
            for v in fres["violations"]:
                out["violations"].append({"scenario": fscn, "violation": v, "pass": "faulted"})
            scn = fscn
            res = fres
    if seed % 97 == 0 or profile.get("keep_sample"):
        out["sample"] = {
            "seed": seed, "world": corpusworlds.describe(scn["world"]["spec"]),
            "mat": scn["mat"], "env": scn["env"],
            "steps": [{k: v for k, v in st.items()} for st in scn["steps"]],
            "outcomes": [[e.get("outcome"), e.get("fired")] for e in res["events"]],
        }
    stats["sites"] = sorted(stats.get("sites", ()))
    stats["interleavings"] = sorted(stats.get("interleavings", ()))
    stats["distinct"] = sorted(stats.get("distinct", ()), key=repr)
    out["stats"] = stats
    out["log_digest"] = _digest([[e.get("op"), e.get("outcome"), e.get("fired"), e.get("extent"), e.get("diffs")]
                                 for e in res["events"]])
    return out


def _digest(obj):
    import hashlib
    import json

    return hashlib.sha256(json.dumps(obj, sort_keys=True, default=repr).encode()).hexdigest()[:16]


# ----------------------------------------------------------------- exhaustive tier


def enumeration_scenarios():
    """Fixed small worlds x public functions for exhaustive crash-point sweeps."""
    out = []
    rng = random.Random(20240607)
    specs = []
    for i in range(10):
        specs.append(world.gen_family(random.Random(9000 + i), forbid=LEAKY, max_glyphs=7,
                                      n_masters=2))
    for d in ("TestVarfea.designspace", "SkipExportGlyphsTest.designspace", "NestedComponents.designspace"):
        specs.append(corpusworlds.ds_world(d))
    for u in ("TestFont.ufo", "MTIFeatures.ufo", "LayerFont-Regular.ufo"):
        specs.append({"corpus": [u]})
    for wi, spec in enumerate(specs):
        info = world_info(spec)
        oplist = ["compileTTF", "compileOTF", "compileInterpolatableTTFs"]
        if info["has_ds"]:
            oplist += ["compileVariableTTF", "compileInterpolatableOTFsFromDS", "compileInterpolatableTTFsFromDS",
                       "compileVariableTTFs"]
            if info["n_sources"] >= 2:
                oplist += ["compileVariableCFF2"]
        for op in oplist:
            st = {"op": op, "opts": ops.gen_opts(rng, op, info, None, None, 0.25)}
            if op in ops.STATIC_OPS:
                st["font"] = 0
            if op == "compileInterpolatableTTFs":
                st["fonts"] = list(range(info["n_fonts"]))
            out.append({"id": "c07-enum-%d-%s" % (wi, op), "seed": wi, "property": PROP,
                        "world": {"spec": spec}, "mat": {"mode": "u2lazy", "perm_key": "e"},
                        "env": {"sde": 1700000000, "tz": "UTC", "clock": {"start": 1.7e9, "jumps": [1]}},
                        "steps": [st]})
    return out


def enumeration_plans(scn, stride=1, scratch_root=None):
    """Fault-free base run of the single-step scenario; returns (plans, base
    violations): every call boundary, FS read and tx invocation as one plan."""
    base = execute(scn, scratch_root)
    ev = base["events"][0]
    ext = ev.get("extent") or {}
    plans = []
    for k in range(1, (ext.get("calls") or 0) + 1, stride):
        plans.append({"kind": "trace", "at": k, "gran": "call"})
    for k in range(3, (ext.get("calls") or 0) + 1, 5 * stride):
        # asynchronous interruption (not an Exception subclass) at every fifth boundary
        plans.append({"kind": "intr", "at": k, "gran": "call"})
    for j in range(1, (ext.get("io") or 0) + 1):
        plans.append({"kind": "io", "at": j})
        plans.append({"kind": "short", "at": j})
    for n in range(1, (ext.get("subproc") or 0) + 1):
        plans.append({"kind": "subproc", "at": n, "mode": "oserror"})
    viols = [{"scenario": scn, "violation": v, "pass": "fault-free"} for v in base["violations"]]
    return plans, viols


def run_enumeration_chunk(scn, plans, scratch_root=None):
    out = {"id": scn["id"], "points": 0, "fired": 0, "violations": [], "sites": set()}
    for f in plans:
        s = copy.deepcopy(scn)
        s["steps"][0]["fault"] = f
        # follow every crash with a fault-free call on the same objects
        s["steps"].append(copy.deepcopy(scn["steps"][0]))
        r = execute(s, scratch_root)
        out["points"] += 1
        fired = r["events"][0].get("fired")
        if fired:
            out["fired"] += 1
            out["sites"].add(str(fired.get("site") or fired.get("path") or fired.get("kind")))
        for v in r["violations"]:
            out["violations"].append({"scenario": s, "violation": v, "pass": "enumerated"})
    out["sites"] = sorted(out["sites"])
    return out
