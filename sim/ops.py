"""Operations of a build session: generation of compile steps with drawn options
(plain JSON) and their realisation into real ufo2ft calls."""
from __future__ import annotations

STATIC_OPS = ("compileTTF", "compileOTF")
INTERP_OPS = ("compileInterpolatableTTFs", "compileInterpolatableTTFsFromDS",
              "compileInterpolatableOTFsFromDS")
VAR_OPS = ("compileVariableTTF", "compileVariableTTFs", "compileVariableCFF2",
           "compileVariableCFF2s")
ALL_OPS = STATIC_OPS + INTERP_OPS + VAR_OPS

TTF_FAMILY = {"compileTTF", "compileInterpolatableTTFs", "compileInterpolatableTTFsFromDS",
              "compileVariableTTF", "compileVariableTTFs"}


def is_ds_op(op):
    return op.endswith("FromDS") or op.startswith("compileVariable")


FILTER_CLASSES = {
    "TransformationsFilter": ("ufo2ft.filters.transformations", "TransformationsFilter"),
    "PropagateAnchorsFilter": ("ufo2ft.filters.propagateAnchors", "PropagateAnchorsFilter"),
    "PropagateAnchorsIFilter": ("ufo2ft.filters.propagateAnchors", "PropagateAnchorsIFilter"),
    "DecomposeComponentsFilter": ("ufo2ft.filters.decomposeComponents", "DecomposeComponentsFilter"),
    "DecomposeComponentsIFilter": ("ufo2ft.filters.decomposeComponents", "DecomposeComponentsIFilter"),
    "DecomposeTransformedComponentsFilter": ("ufo2ft.filters.decomposeTransformedComponents", "DecomposeTransformedComponentsFilter"),
    "DecomposeTransformedComponentsIFilter": ("ufo2ft.filters.decomposeTransformedComponents", "DecomposeTransformedComponentsIFilter"),
    "FlattenComponentsFilter": ("ufo2ft.filters.flattenComponents", "FlattenComponentsFilter"),
    "FlattenComponentsIFilter": ("ufo2ft.filters.flattenComponents", "FlattenComponentsIFilter"),
    "SortContoursFilter": ("ufo2ft.filters.sortContours", "SortContoursFilter"),
    "RemoveOverlapsFilter": ("ufo2ft.filters.removeOverlaps", "RemoveOverlapsFilter"),
    "ReverseContourDirectionFilter": ("ufo2ft.filters.reverseContourDirection", "ReverseContourDirectionFilter"),
    "CubicToQuadraticFilter": ("ufo2ft.filters.cubicToQuadratic", "CubicToQuadraticFilter"),
    "DottedCircleFilter": ("ufo2ft.filters.dottedCircle", "DottedCircleFilter"),
    "SkipExportGlyphsFilter": ("ufo2ft.filters.skipExportGlyphs", "SkipExportGlyphsFilter"),
    "SkipExportGlyphsIFilter": ("ufo2ft.filters.skipExportGlyphs", "SkipExportGlyphsIFilter"),
    "ExplodeColorLayerGlyphsFilter": ("ufo2ft.filters.explodeColorLayerGlyphs", "ExplodeColorLayerGlyphsFilter"),
}

WRITER_CLASSES = {
    "KernFeatureWriter": ("ufo2ft.featureWriters.kernFeatureWriter", "KernFeatureWriter"),
    "KernFeatureWriter2": ("ufo2ft.featureWriters.kernFeatureWriter2", "KernFeatureWriter"),
    "MarkFeatureWriter": ("ufo2ft.featureWriters.markFeatureWriter", "MarkFeatureWriter"),
    "CursFeatureWriter": ("ufo2ft.featureWriters.cursFeatureWriter", "CursFeatureWriter"),
    "GdefFeatureWriter": ("ufo2ft.featureWriters.gdefFeatureWriter", "GdefFeatureWriter"),
}


def _cls(table, name):
    import importlib

    mod, attr = table[name]
    return getattr(importlib.import_module(mod), attr)


def make_predicate(spec):
    """Stateless include predicates (evaluated on glyph objects by the filter and
    on glyph snapshots by the scope oracle, see gen14.included_names)."""
    if spec == "has_contours":
        return lambda g: len(g) > 0
    if spec == "has_components":
        return lambda g: bool(g.components)
    if spec == "has_anchors":
        return lambda g: bool(g.anchors)
    if spec.startswith("name_startswith:"):
        prefix = spec.split(":", 1)[1]
        return lambda g: g.name.startswith(prefix)
    raise ValueError(spec)


def make_filter(desc):
    kw = dict(desc.get("kwargs", {}))
    if "include" in desc:
        kw["include"] = list(desc["include"])
    if "exclude" in desc:
        kw["exclude"] = list(desc["exclude"])
    if "include_pred" in desc:
        kw["include"] = make_predicate(desc["include_pred"])
    if "pre" in desc:
        kw["pre"] = desc["pre"]
    return _cls(FILTER_CLASSES, desc["cls"])(*desc.get("args", []), **kw)


def make_writer(desc):
    klass = _cls(WRITER_CLASSES, desc["cls"])
    if desc.get("as") == "class":
        return klass
    return klass(**desc.get("kwargs", {}))


def realize_opts(opts, objs, stream_factory=None):
    """JSON options -> kwargs for the compile function.  ``objs``: pool of shared
    long-lived option objects, keyed by the descriptor's ``ref``."""
    kw = {}
    for k, v in opts.items():
        if k == "filters":
            lst = []
            for d in v:
                if d == "...":
                    lst.append(...)
                    continue
                ref = d.get("ref")
                if ref is not None and ref in objs:
                    lst.append(objs[ref])
                    continue
                o = make_filter(d)
                if ref is not None:
                    objs[ref] = o
                lst.append(o)
            kw[k] = lst
        elif k == "featureWriters":
            lst = []
            for d in v:
                if d == "...":
                    lst.append(...)
                    continue
                ref = d.get("ref")
                if ref is not None and ref in objs:
                    lst.append(objs[ref])
                    continue
                o = make_writer(d)
                if ref is not None:
                    objs[ref] = o
                lst.append(o)
            kw[k] = lst
        elif k == "debugFeatureFile":
            kw[k] = stream_factory(v) if stream_factory else None
        elif k == "skipExportGlyphs":
            kw[k] = list(v)
        elif k == "excludeVariationTables":
            kw[k] = tuple(v)
        elif k.startswith("_"):
            continue
        else:
            kw[k] = v
    return kw


# ----------------------------------------------------------------- generation


def _maybe(rng, p):
    return rng.random() < p


def gen_filter_desc(rng, glyph_names, interpolatable=False, refs=None):
    names = list(glyph_names or [])
    pool = ["TransformationsFilter", "PropagateAnchorsFilter", "DecomposeTransformedComponentsFilter",
            "FlattenComponentsFilter", "SortContoursFilter", "ReverseContourDirectionFilter",
            "DecomposeComponentsFilter", "DottedCircleFilter"]
    if interpolatable:
        pool += ["PropagateAnchorsIFilter", "DecomposeComponentsIFilter", "FlattenComponentsIFilter",
                 "DecomposeTransformedComponentsIFilter"]
    cls = rng.choice(pool)
    d = {"cls": cls}
    if cls == "TransformationsFilter":
        d["kwargs"] = rng.choice([{"OffsetX": 15}, {"OffsetY": -20, "OffsetX": 5},
                                  {"ScaleX": 80, "ScaleY": 80}, {"Slant": 10}, {"ScaleX": 50, "Origin": 0}])
    if cls == "DottedCircleFilter":
        d["pre"] = True
    elif _maybe(rng, 0.4):
        d["pre"] = _maybe(rng, 0.5)
    if names and _maybe(rng, 0.4):
        sub = list(names)
        rng.shuffle(sub)
        sub = sub[: rng.randint(1, max(1, len(sub) // 2))]
        d["include" if _maybe(rng, 0.6) else "exclude"] = sub
    if refs is not None and _maybe(rng, 0.5):
        # long-lived instance that later steps may pass again
        if refs and _maybe(rng, 0.5):
            return dict(rng.choice(refs))
        d["ref"] = "F%d" % len(refs)
        refs.append(d)
    return d


def gen_writer_list(rng, refs=None):
    x = rng.random()
    if x < 0.25:
        lst = [{"cls": "KernFeatureWriter", "as": "class"}, {"cls": "MarkFeatureWriter", "as": "class"}]
    elif x < 0.45:
        lst = ["...", {"cls": "CursFeatureWriter"}]
    elif x < 0.6:
        lst = [{"cls": "KernFeatureWriter2", "kwargs": {"quantization": rng.choice([1, 5])}},
               {"cls": "MarkFeatureWriter", "kwargs": {"groupMarkClasses": True}},
               {"cls": "GdefFeatureWriter"}]
    elif x < 0.7:
        lst = []
    elif x < 0.85:
        lst = [{"cls": "KernFeatureWriter", "kwargs": {"mode": "append", "ignoreMarks": False}},
               {"cls": "MarkFeatureWriter", "kwargs": {"features": ["mark"], "quantization": 10}},
               {"cls": "GdefFeatureWriter"}, {"cls": "CursFeatureWriter"}]
    else:
        lst = [{"cls": "MarkFeatureWriter"}, {"cls": "KernFeatureWriter"}, "..."]
    if refs is not None:
        out = []
        for d in lst:
            if isinstance(d, dict) and d.get("as") != "class" and _maybe(rng, 0.5):
                same = [r for r in refs if r["cls"] == d["cls"]]
                if same and _maybe(rng, 0.6):
                    out.append(dict(rng.choice(same)))
                    continue
                d = dict(d)
                d["ref"] = "W%d" % len(refs)
                refs.append(d)
            out.append(d)
        lst = out
    return lst


def gen_opts(rng, op, info, filter_refs=None, writer_refs=None, p_opt=0.3):
    """Draw options for ``op``.  ``info``: {"glyphs": [...], "n_masters": n,
    "layers": [...], "has_ds": bool, "vf_names": [...]}"""
    o = {}
    names = info.get("glyphs") or []
    ttf = op in TTF_FAMILY
    static = op in STATIC_OPS
    if static and _maybe(rng, p_opt):
        o["removeOverlaps"] = True
        if _maybe(rng, 0.6):
            o["overlapsBackend"] = "pathops"
    if ttf:
        if _maybe(rng, p_opt):
            o["flattenComponents"] = True
        if _maybe(rng, p_opt * 0.6):
            o["convertCubics"] = False
        if _maybe(rng, p_opt * 0.6):
            o["allQuadratic"] = False
        if _maybe(rng, p_opt * 0.5):
            o["reverseDirection"] = False
        if _maybe(rng, p_opt * 0.5) and (static or op.startswith("compileVariable")):
            o["dropImpliedOnCurves"] = True
        if _maybe(rng, p_opt * 0.4):
            o["cubicConversionError"] = rng.choice([0.002, 0.0005])
        if static and _maybe(rng, p_opt * 0.4):
            o["rememberCurveType"] = rng.choice([True, False])
    else:
        if static:
            if _maybe(rng, p_opt):
                o["optimizeCFF"] = rng.choice([0, 1, 2])
            if _maybe(rng, p_opt * 0.7):
                o["cffVersion"] = 2
            if _maybe(rng, p_opt * 0.5):
                o["subroutinizer"] = rng.choice(["cffsubr", "compreffor"])
        if _maybe(rng, p_opt * 0.5):
            o["roundTolerance"] = rng.choice([0, 0.25, 0.5])
        if op.startswith("compileVariableCFF2") and _maybe(rng, p_opt * 0.5):
            o["optimizeCFF"] = rng.choice([0, 1, 2])
    if _maybe(rng, p_opt) and names:
        sub = [n for n in names if n != ".notdef"]
        rng.shuffle(sub)
        # only meaningful where the argument is honoured (static + Interpolatable list)
        if static or op == "compileInterpolatableTTFs":
            # half of the time prefer glyphs that others are named after or built from
            # ('A' for 'A.alt', 'A.comp0', 'A_V'): pruning them changes what name
            # derivation, decomposition and feature closure see
            ns = set(sub)
            stems = [n for n in sub if any(o_ != n and (o_.startswith(n + ".") or n in o_.split(".")[0].split("_"))
                                          for o_ in ns)]
            # composites named after their base ('A.comp0', 'A.mixed') are not referenced by
            # generated feature code, so pruning their base does not just end in a feature error
            safe = [n for n in stems if any(o_.startswith(n + ".comp") or o_.startswith(n + ".mixed")
                                            for o_ in ns)]
            stems = safe + [n for n in stems if n not in safe]
            if stems and rng.random() < 0.5:
                sub = stems + [n for n in sub if n not in stems]
            o["skipExportGlyphs"] = sub[: rng.randint(0, min(2, len(sub)))]
    if _maybe(rng, p_opt):
        k = rng.randint(1, 2)
        lst = [gen_filter_desc(rng, names, interpolatable=not static, refs=filter_refs) for _ in range(k)]
        if _maybe(rng, 0.5):
            lst.insert(rng.randint(0, len(lst)), "...")
        o["filters"] = lst
    if _maybe(rng, p_opt):
        o["featureWriters"] = gen_writer_list(rng, refs=writer_refs)
    if _maybe(rng, p_opt * 0.7):
        o["useProductionNames"] = rng.choice([True, False])
    if _maybe(rng, p_opt * 0.5):
        o["debugFeatureFile"] = {"limit": None}
    if _maybe(rng, p_opt * 0.4) and names:
        go = list(names)
        rng.shuffle(go)
        o["glyphOrder"] = go[: rng.randint(1, len(go))]
    if static and info.get("layers") and _maybe(rng, p_opt * 0.3):
        o["layerName"] = rng.choice(info["layers"])
    if op.startswith("compileVariable"):
        if _maybe(rng, p_opt):
            o["variableFeatures"] = False
        if ttf and _maybe(rng, p_opt * 0.4):
            o["optimizeGvar"] = False
        if _maybe(rng, p_opt * 0.3):
            o["excludeVariationTables"] = rng.choice([["MVAR"], ["HVAR"], ["STAT"], ["MVAR", "avar"]])
        if op.endswith("s") and info.get("vf_names") and _maybe(rng, p_opt * 0.5):
            o["variableFontNames"] = [rng.choice(info["vf_names"])]
    if _maybe(rng, p_opt * 0.3):
        o["colrLayerReuse"] = rng.choice([True, False])
    if _maybe(rng, p_opt * 0.2):
        o["skipFeatureCompilation"] = True
    if static and _maybe(rng, p_opt * 0.2):
        o["ftConfig"] = {"fontTools.otlLib.optimize.gpos:COMPRESSION_LEVEL": rng.choice([0, 5])}
    if op.startswith("compileVariable") and _maybe(rng, p_opt * 0.2):
        o["ftConfig"] = {"fontTools.otlLib.optimize.gpos:COMPRESSION_LEVEL": rng.choice([0, 5])}
    return o
