"""Stateless reference model of instance generation (C19 oracle 1).

Independent of ufo2ft.instantiator and of fontMath: it works on plain snapshots
of the sources and uses only fontTools.varLib.models.VariationModel on raw number
vectors (plus the closed-form linear blend on a two-master axis) and its own
normalisation, kerning look-up and glyph swap."""
from __future__ import annotations

import copy

from fontTools.misc.fixedTools import otRound
from fontTools.varLib.models import VariationModel

K1, K2 = "public.kern1.", "public.kern2."
TOL = 1e-6


def axis_bounds(axes):
    """[(name, min, default, max)] in design coordinates from axis dicts
    {name, minimum, default, maximum, map?}."""
    out = []
    for a in axes:
        out.append((a["name"], _map_forward(a, a["minimum"]), _map_forward(a, a["default"]),
                    _map_forward(a, a["maximum"])))
    return out


def _map_forward(a, v):
    """user -> design coordinate through the axis map (piecewise linear; outside
    the map the end offset is kept)."""
    mp = a.get("map")
    if not mp:
        return v
    pts = sorted((float(x), float(y)) for x, y in mp)
    for x, y in pts:
        if x == v:
            return y
    if v < pts[0][0]:
        return v + pts[0][1] - pts[0][0]
    if v > pts[-1][0]:
        return v + pts[-1][1] - pts[-1][0]
    for (x0, y0), (x1, y1) in zip(pts, pts[1:]):
        if x0 < v < x1:
            return y0 + (y1 - y0) * (v - x0) / (x1 - x0)
    raise AssertionError("unreachable")


def map_backward(a, v):
    """design -> user coordinate through the inverse of the axis map."""
    mp = a.get("map")
    if not mp:
        return v
    inv = dict(a)
    inv["map"] = [[y, x] for x, y in mp]
    return _map_forward(inv, v)


WDTH_TO_CLASS = [(50, 1), (62.5, 2), (75, 3), (87.5, 4), (100, 5), (112.5, 6), (125, 7), (150, 8), (200, 9)]


def width_class(wdth_user):
    v = min(max(wdth_user, 50), 200)
    for (x0, y0), (x1, y1) in zip(WDTH_TO_CLASS, WDTH_TO_CLASS[1:]):
        if x0 <= v <= x1:
            return otRound(y0 + (y1 - y0) * (v - x0) / (x1 - x0))
    raise AssertionError("unreachable")


def weight_class(wght_user):
    return otRound(min(max(wght_user, 1), 1000))


def normalize(loc, bounds):
    out = {}
    for name, lo, d, hi in bounds:
        v = loc.get(name, d)
        v = max(min(v, hi), lo)
        if v == d:
            n = 0.0
        elif v < d:
            n = (v - d) / (d - lo)
        else:
            n = (v - d) / (hi - d)
        out[name] = n
    return out


def full_location(loc, bounds):
    return {name: loc.get(name, d) for name, lo, d, hi in bounds}


def interpolate(master_locs, master_vectors, loc, axis_order):
    """master_locs: normalised dicts; vectors: equal-length lists of numbers."""
    key = tuple(sorted(loc.items()))
    for ml, v in zip(master_locs, master_vectors):
        if tuple(sorted(ml.items())) == key:
            return list(v), True
    model = VariationModel(master_locs, axis_order)
    n = len(master_vectors[0])
    out = []
    for i in range(n):
        out.append(model.interpolateFromMasters(loc, [v[i] for v in master_vectors]))
    # exact linear blend on a two-master axis (closed form) as a cross-check
    if len(master_locs) == 2 and len(axis_order) >= 1:
        moving = [a for a in axis_order if master_locs[0].get(a, 0) != master_locs[1].get(a, 0)]
        if len(moving) == 1 and all(loc.get(a, 0) == master_locs[0].get(a, 0) for a in axis_order if a not in moving):
            a = moving[0]
            l0, l1 = master_locs[0].get(a, 0), master_locs[1].get(a, 0)
            t = (loc.get(a, 0) - l0) / (l1 - l0)
            if not 0.0 <= t <= 1.0:
                return out, False  # beyond the outer master the model holds its value
            lin = [v0 + t * (v1 - v0) for v0, v1 in zip(*master_vectors)]
            for x, y in zip(out, lin):
                if abs(x - y) > 1e-6 * max(1.0, abs(y)):
                    raise AssertionError("model self-check: VariationModel != linear blend")
    return out, False


# ----------------------------------------------------------------- glyphs


def glyph_vector(g):
    v = [g["width"], g["height"] or 0]
    for c in g["contours"]:
        for p in c["pts"]:
            v += [p[0], p[1]]
    for base, tr, _id in g["components"]:
        v += list(tr)
    for a in g["anchors"]:
        v += [a[1], a[2]]
    return v


def glyph_structure(g):
    return (tuple(tuple((p[2], bool(p[3])) for p in c["pts"]) for c in g["contours"]),
            tuple(b for b, _t, _i in g["components"]), tuple(a[0] for a in g["anchors"]))


def glyph_from_vector(template, vec):
    g = copy.deepcopy(template)
    it = iter(vec)
    g["width"] = next(it)
    g["height"] = next(it)
    for c in g["contours"]:
        for p in c["pts"]:
            p[0] = next(it)
            p[1] = next(it)
    for comp in g["components"]:
        comp[1] = [next(it) for _ in range(6)]
    for a in g["anchors"]:
        a[1] = next(it)
        a[2] = next(it)
    return g


def is_empty(g):
    return not g["contours"] and not g["components"]


def expected_glyph(name, layers, layer_locs, default_idx, loc, axis_order):
    """layers: list of {name: glyph snapshot}; layer_locs: normalised dicts.
    Returns (glyph snapshot | None if the model makes no claim, at_master)."""
    items = []
    dflt_empty = other_empty = False
    for i, (lay, ll) in enumerate(zip(layers, layer_locs)):
        if name not in lay:
            continue
        g = lay[name]
        if is_empty(g):
            if i == default_idx:
                dflt_empty = True
            else:
                other_empty = True
        items.append((i, ll, g))
    if not dflt_empty and other_empty:
        items = [(i, ll, g) for i, ll, g in items if not is_empty(g)]
    dflt = [g for i, ll, g in items if i == default_idx]
    if not dflt:
        return None, False
    structs = {glyph_structure(g) for _, _, g in items}
    key = tuple(sorted(loc.items()))
    for i, ll, g in items:
        if tuple(sorted(ll.items())) == key:
            # last master registered for a location wins (dict semantics)
            same = [gg for ii, l2, gg in items if tuple(sorted(l2.items())) == key]
            return copy.deepcopy(same[-1]), True
    if len(structs) != 1:
        return None, False  # incompatible masters: the model makes no claim
    try:
        vec, at_master = interpolate([ll for _, ll, _ in items], [glyph_vector(g) for _, _, g in items], loc, axis_order)
    except AssertionError:
        raise
    except Exception:  # noqa: BLE001 - e.g. no master at the default of the sub-model
        return None, False
    return glyph_from_vector(dflt[0], vec), at_master


def round_glyph(g):
    g = copy.deepcopy(g)
    g["width"] = otRound(g["width"])
    g["height"] = otRound(g["height"])
    for c in g["contours"]:
        for p in c["pts"]:
            p[0], p[1] = otRound(p[0]), otRound(p[1])
    for comp in g["components"]:
        tr = comp[1]
        comp[1] = list(tr[:4]) + [otRound(tr[4]), otRound(tr[5])]
    for a in g["anchors"]:
        a[1], a[2] = otRound(a[1]), otRound(a[2])
    return g


def num_close(exp, got, rounded):
    """exp: model value (float); got: instance value."""
    if exp is None or got is None:
        return exp == got
    if rounded:
        return got in (otRound(exp - TOL), otRound(exp + TOL), otRound(exp))
    return abs(exp - got) <= TOL * max(1.0, abs(exp))


def compare_glyph(exp, got, rounded, path, out, at_master=False):
    if not num_close(exp["width"], got["width"], rounded):
        out.append("%s/width model %r got %r" % (path, exp["width"], got["width"]))
    if len(exp["contours"]) != len(got["contours"]):
        out.append("%s/contours count model %d got %d" % (path, len(exp["contours"]), len(got["contours"])))
    else:
        for ci, (ce, cg) in enumerate(zip(exp["contours"], got["contours"])):
            if len(ce["pts"]) != len(cg["pts"]):
                out.append("%s/contours/%d point count model %d got %d" % (path, ci, len(ce["pts"]), len(cg["pts"])))
                continue
            for pi, (pe, pg) in enumerate(zip(ce["pts"], cg["pts"])):
                if pe[2] != pg[2]:
                    out.append("%s/contours/%d/%d type model %r got %r" % (path, ci, pi, pe[2], pg[2]))
                if not (num_close(pe[0], pg[0], rounded) and num_close(pe[1], pg[1], rounded)):
                    out.append("%s/contours/%d/%d model (%r, %r) got (%r, %r)" % (path, ci, pi, pe[0], pe[1], pg[0], pg[1]))
                    if len(out) > 12:
                        return
    if [c[0] for c in exp["components"]] != [c[0] for c in got["components"]]:
        out.append("%s/components bases model %r got %r" % (path, [c[0] for c in exp["components"]],
                                                          [c[0] for c in got["components"]]))
    else:
        for k, (ce, cg) in enumerate(zip(exp["components"], got["components"])):
            for j in range(6):
                # the 2x2 part is never rounded; offsets are
                if not num_close(ce[1][j], cg[1][j], rounded and j >= 4):
                    out.append("%s/components/%d/%d model %r got %r" % (path, k, j, ce[1][j], cg[1][j]))
    ea = {a[0]: a for a in exp["anchors"]}
    ga = {a[0]: a for a in got["anchors"]}
    if sorted(ea) != sorted(ga):
        out.append("%s/anchors names model %r got %r" % (path, sorted(ea), sorted(ga)))
    else:
        for n in ea:
            if not (num_close(ea[n][1], ga[n][1], rounded) and num_close(ea[n][2], ga[n][2], rounded)):
                out.append("%s/anchors/%s model (%r, %r) got (%r, %r)" % (path, n, ea[n][1], ea[n][2], ga[n][1], ga[n][2]))


# ----------------------------------------------------------------- kerning


def kern_lookup(kerning, groups, pair):
    """UFO kerning value of ``pair`` with group fall-back.  Returns (value,
    ambiguous): ambiguous when glyph-group and group-glyph both exist with
    different values (UFO spec and fontMath disagree on their precedence)."""
    l, r = pair
    key = "%s|%s" % (l, r)
    if key in kerning:
        return kerning[key], False
    lg = l if l.startswith(K1) else None
    rg = r if r.startswith(K2) else None
    if lg is None:
        for gn, members in groups.items():
            if gn.startswith(K1) and l in members:
                lg = gn
    if rg is None:
        for gn, members in groups.items():
            if gn.startswith(K2) and r in members:
                rg = gn
    lgl = None if l.startswith(K1) else l
    rgl = None if r.startswith(K2) else r
    cands = []
    if lg is not None and rgl is not None and "%s|%s" % (lg, rgl) in kerning:
        cands.append(kerning["%s|%s" % (lg, rgl)])
    if lgl is not None and rg is not None and "%s|%s" % (lgl, rg) in kerning:
        cands.append(kerning["%s|%s" % (lgl, rg)])
    if cands:
        return cands[0], len(set(cands)) > 1
    if lg is not None and rg is not None and "%s|%s" % (lg, rg) in kerning:
        return kerning["%s|%s" % (lg, rg)], False
    return 0, False


def unique_group_membership(groups):
    seen1, seen2 = {}, {}
    for gn, members in groups.items():
        seen = seen1 if gn.startswith(K1) else seen2 if gn.startswith(K2) else None
        if seen is None:
            continue
        for m in members:
            if m in seen:
                return False
            seen[m] = gn
    return True


# ----------------------------------------------------------------- swap


def swap_names(font, a, b):
    """Independent implementation of a designspace-rule glyph swap on a font
    snapshot (default layer): outlines, width, anchors and component / kerning /
    group references are exchanged, code points are not."""
    f = copy.deepcopy(font)
    layer = f["layers"][f["defaultLayer"]]["glyphs"]
    ga, gb = layer[a], layer[b]
    for k in ("contours", "components", "width", "anchors"):
        ga[k], gb[k] = gb[k], ga[k]

    def ren(n):
        return b if n == a else a if n == b else n

    for g in layer.values():
        for comp in g["components"]:
            comp[0] = ren(comp[0])
    f["kerning"] = {"%s|%s" % (ren(k.split("|")[0]), ren(k.split("|")[1])): v for k, v in f["kerning"].items()}
    f["groups"] = {gn: [ren(m) for m in members] for gn, members in f["groups"].items()}
    return f
