"""Executor: a pure function (scenario, interpreter) -> event log.

It draws no random numbers and reads no real clock; every decision is data in
the scenario.  The only thing that is wrapped in ``try`` is the call into
ufo2ft itself - exceptions anywhere else are harness errors and propagate."""
from __future__ import annotations

import contextlib
import copy
import hashlib
import io
import logging

from . import materialize, ops, seams
from .snapshot import generalise

_LOGGING_OFF = False


def quiet():
    global _LOGGING_OFF
    if not _LOGGING_OFF:
        logging.disable(logging.CRITICAL)
        _LOGGING_OFF = True


def font_digest(tt):
    buf = io.BytesIO()
    tt.save(buf)
    return hashlib.sha256(buf.getvalue()).hexdigest()


def table_digests(tt):
    """Per-table digests of an already saved font (for diagnosis only)."""
    from fontTools.ttLib import TTFont

    buf = io.BytesIO()
    tt.save(buf)
    buf.seek(0)
    f = TTFont(buf)
    out = {}
    for tag in f.reader.keys():
        out[tag] = hashlib.sha256(f.reader[tag]).hexdigest()[:12]
    return out


class Ctx:
    def __init__(self, scn, scratch_root=None):
        self.scn = scn
        self.scratch_root = scratch_root
        self.world = None
        self.objs = {}
        self.gens = {}
        self.events = []
        self.reopen_count = 0

    def new_world(self):
        mat = self.scn.get("mat", {})
        return materialize.materialize(
            self.scn["world"]["spec"],
            mode=mat.get("mode", "u2mem"),
            order_key=mat.get("order_key"),
            perm_key=mat.get("perm_key"),
            ds_names=mat.get("ds_names", True),
            want_ds=mat.get("want_ds"),
            scratch_root=self.scratch_root,
            cache_key=self.scn.get("id"),
        )

    def open_world(self):
        if self.world is not None:
            self.world.close()
        mat = self.scn.get("mat", {})
        self.world = materialize.materialize(
            self.scn["world"]["spec"],
            mode=mat.get("mode", "u2mem"),
            order_key=mat.get("order_key"),
            perm_key=mat.get("perm_key"),
            ds_names=mat.get("ds_names", True),
            want_ds=mat.get("want_ds"),
            scratch_root=self.scratch_root,
            cache_key=self.scn.get("id"),
        )
        self.gens = {}

    def close(self):
        for g in self.gens.values():
            try:
                g.close()
            except Exception:
                pass
        self.gens = {}
        if self.world is not None:
            self.world.close()
            self.world = None


def _targets(step, world):
    """Resolve the object(s) the step compiles."""
    op = step["op"]
    if ops.is_ds_op(op):
        if world.ds is None:
            raise LookupError("no designspace in this world")
        return world.ds
    if op == "compileInterpolatableTTFs":
        idx = step.get("fonts")
        return [world.fonts[i] for i in idx] if idx is not None else list(world.fonts)
    return world.fonts[step.get("font", 0)]


def _call(step, ctx, kwargs, world):
    """The call into the system under test.  Returns list of TTFonts."""
    import ufo2ft

    op = step["op"]
    fn = getattr(ufo2ft, op)
    target = _targets(step, world)
    if op == "compileInterpolatableTTFs":
        gen = fn(target, **kwargs)
        consume = step.get("consume", "all")
        outs = []
        if consume == "all":
            for tt in gen:
                outs.append(tt)
            return outs
        try:
            for _ in range(consume):
                outs.append(next(gen))
        except StopIteration:
            return outs
        if step.get("close", True):
            gen.close()
        else:
            ctx.gens[step.get("gen", "g")] = gen
        return outs
    res = fn(target, **kwargs)
    if op in ("compileVariableTTFs", "compileVariableCFF2s"):
        return [res[k] for k in sorted(res)]
    if op.endswith("FromDS"):
        return [s.font for s in res.sources]
    return [res]


def run_step(step, ctx, want_digests=False, count=True, want_tables=False):
    """Execute one step; returns the event dict."""
    op = step["op"]
    ev = {"op": op, "outcome": None}
    world = ctx.world
    if op == "reopen":
        ctx.open_world()
        ctx.reopen_count += 1
        ev["outcome"] = "ok"
        return ev
    if op == "gen_next":
        gen = ctx.gens.get(step.get("gen", "g"))
        if gen is None:
            ev["outcome"] = "skipped"
            return ev
    throwaway = None
    if step.get("inplace") and op in ops.ALL_OPS:
        # inplace=True runs on a throw-away, identically materialised copy
        throwaway = world = ctx.new_world()
    fault = step.get("fault") or None
    kind = fault["kind"] if fault else None
    streams = []

    def stream_factory(v):
        limit = v.get("limit") if isinstance(v, dict) else None
        if kind == "stream":
            limit = fault["at"]
        s = seams.SimStream(limit)
        streams.append(s)
        return s

    opts = dict(step.get("opts", {}))
    if kind == "stream" and "debugFeatureFile" not in opts:
        opts["debugFeatureFile"] = {"limit": fault["at"]}
    if step.get("inplace"):
        opts["inplace"] = True
    kwargs = ops.realize_opts(opts, ctx.objs, stream_factory) if op in ops.ALL_OPS else {}
    if op in ops.ALL_OPS and getattr(world, "include_dir", None) and "feaIncludeDir" not in kwargs:
        # memory-built fonts have no path to resolve include() against
        kwargs["feaIncludeDir"] = world.include_dir

    with contextlib.ExitStack() as stack:
        tf = None
        if kind in ("trace", "mem", "intr"):
            tf = seams.TraceFault(fault)
        elif count:
            tf = seams.TraceFault(None, gran=step.get("_gran", "call"))
        sp = stack.enter_context(seams.SubprocFault(fault["at"] if kind == "subproc" else None,
                                                    fault.get("mode", "oserror") if kind == "subproc" else "oserror"))
        tmp = stack.enter_context(seams.TmpfileFault(fail=(kind == "tmpfile")))
        if world.simfs is not None:
            world.simfs.arm(fault if kind in ("io", "short") else None)
        outs = None
        try:
            with (tf if tf is not None else contextlib.nullcontext()):
                if op == "gen_next":
                    outs = []
                    try:
                        for _ in range(step.get("n", 1)):
                            outs.append(next(gen))
                    except StopIteration:
                        ctx.gens.pop(step.get("gen", "g"), None)
                    if step.get("close"):
                        gen.close()
                        ctx.gens.pop(step.get("gen", "g"), None)
                else:
                    outs = _call(step, ctx, kwargs, world)
            ev["outcome"] = "ok"
        except BaseException as e:  # noqa: BLE001 - the SUT may raise anything
            if isinstance(e, (KeyboardInterrupt, SystemExit)):
                raise
            ev["outcome"] = "exc:" + type(e).__name__
            try:
                ev["exc_msg"] = str(e)[:160]
            except BaseException:  # noqa: BLE001 - some fontTools errors fail in __str__
                ev["exc_msg"] = "<unprintable %s>" % type(e).__name__
            if op == "gen_next":
                ctx.gens.pop(step.get("gen", "g"), None)
        io_ops = world.simfs.disarm() if world.simfs is not None else 0
        fired = None
        if tf is not None and tf.fired:
            fired = dict(tf.fired, kind=kind)
        elif world.simfs is not None and world.simfs.fired:
            fired = dict(world.simfs.fired)
        elif sp.fired:
            fired = dict(sp.fired, kind="subproc")
        elif tmp.fired:
            fired = dict(tmp.fired, kind="tmpfile")
        elif streams and any(s.fired for s in streams):
            fired = dict([s.fired for s in streams if s.fired][0], kind="stream")
        elif kind == "cancel":
            fired = {"kind": "cancel", "after": step.get("consume")}
        ev["fired"] = fired
        ev["extent"] = {
            "calls": tf.count if tf is not None else None,
            "io": io_ops,
            "subproc": sp.calls,
            "tmpfile": tmp.calls,
            "stream": max([s.tell() for s in streams], default=0),
        }
    if want_digests and outs is not None:
        digs = []
        for tt in outs:
            try:
                digs.append(font_digest(tt))
            except Exception as e:  # noqa: BLE001
                digs.append("saveexc:" + type(e).__name__)
        ev["digests"] = digs
        if want_tables:
            tl = []
            for tt in outs:
                try:
                    tl.append(table_digests(tt))
                except Exception as e:  # noqa: BLE001
                    tl.append({"error": type(e).__name__})
            ev["tables"] = tl
    ev["_outs"] = outs
    if throwaway is not None:
        throwaway.close()
    return ev


def run_scenario(scn, want_digests=False, check_sources=True, scratch_root=None,
                 classify=None, keep_outputs=False, want_tables=False):
    """Run all steps; after each one evaluate the C07 oracle (live sources ==
    pristine twin).  Returns {"events": [...], "violations": [...], "known": [...]}.

    ``classify(paths, twins_orig, step, history) -> (known: dict, unknown: list)``
    separates differences attributed to a listed open finding from new ones.
    After any difference the expected state is re-based on the observed one so
    that later steps are still checked."""
    quiet()
    env = scn.get("env", {})
    ctx = Ctx(scn, scratch_root=scratch_root)
    violations, known_hits = [], []
    clock_stats = {}
    try:
        with seams.ClockSeam(env.get("clock", {}), env.get("sde"), env.get("tz")) as clock:
            ctx.open_world()
            history = []
            for i, step in enumerate(scn["steps"]):
                ev = run_step(step, ctx, want_digests=want_digests, want_tables=want_tables)
                outs = ev.pop("_outs", None)
                if keep_outputs:
                    ev["outs"] = outs
                ev["i"] = i
                if step["op"] == "reopen":
                    history = []
                elif check_sources and not step.get("inplace"):
                    paths = ctx.world.source_diffs()
                    if paths:
                        ev["diffs"] = paths
                        if classify is not None:
                            known, unknown = classify(paths, ctx.world.twins_orig, step, history)
                        else:
                            known, unknown = {}, paths
                        for fid, ps in known.items():
                            known_hits.append({"step": i, "finding": fid, "paths": ps})
                        if unknown:
                            violations.append({"step": i, "paths": unknown,
                                               "sig": sorted({generalise(p) for p in unknown})})
                        ctx.world.rebase()
                    history.append(step)
                ctx.events.append(ev)
            clock_stats = {"reads": clock.reads, "covered_s": clock.covered}
    finally:
        ctx.close()
    return {"events": ctx.events, "violations": violations, "known": known_hits,
            "clock": clock_stats, "reopens": ctx.reopen_count}
