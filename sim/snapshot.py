"""Deep *semantic* snapshots of UFO fonts (ufoLib2 or defcon), glyph sets and
designspace documents, plus a structural diff that yields the differing paths.

A snapshot is plain data (dict / list / str / number / bytes / None).  Numbers
compare by value (500 == 500.0).  Glyphs of a lazily loaded ufoLib2 font that
have not been read from disk yet are reported as NOT_LOADED, which compares
equal to anything: an unloaded glyph cannot have been modified in memory, and
the disk image is sealed and checked separately.  That keeps lazily loaded
fonts lazy across oracle evaluations."""
from __future__ import annotations

import enum

from fontTools.pens.pointPen import AbstractPointPen
from fontTools.ufoLib import fontInfoAttributesVersion3

NOT_LOADED = "<<NOT_LOADED>>"

INFO_ATTRS = sorted(fontInfoAttributesVersion3)


def norm(v):
    """Normalise an arbitrary lib/info value to plain data."""
    if v is None or isinstance(v, (bool, int, float, str, bytes)):
        return v
    if isinstance(v, enum.Enum):
        return norm(v.value)
    if isinstance(v, dict):
        return {str(k) if not isinstance(k, str) else k: norm(x) for k, x in v.items()}
    if isinstance(v, (list, tuple, set, frozenset)):
        if isinstance(v, (set, frozenset)):
            v = sorted(v, key=repr)
        return [norm(x) for x in v]
    if hasattr(v, "__attrs_attrs__"):
        return {a.name: norm(getattr(v, a.name)) for a in v.__attrs_attrs__}
    if isinstance(v, bytearray):
        return bytes(v)
    # defcon objects (Guideline, Image, ...) behave like dicts
    if hasattr(v, "items"):
        try:
            return {k: norm(x) for k, x in v.items()}
        except Exception:
            pass
    d = getattr(v, "__dict__", None)
    if d is not None:
        return {k: norm(x) for k, x in d.items() if not k.startswith("_")}
    return repr(v)


class _SnapPen(AbstractPointPen):
    def __init__(self):
        self.contours = []
        self.components = []
        self._cur = None

    def beginPath(self, identifier=None, **kwargs):
        self._cur = {"id": identifier, "pts": []}

    def endPath(self):
        self.contours.append(self._cur)
        self._cur = None

    def addPoint(self, pt, segmentType=None, smooth=False, name=None, identifier=None, **kwargs):
        self._cur["pts"].append([pt[0], pt[1], segmentType, bool(smooth), name, identifier])

    def addComponent(self, baseGlyphName, transformation, identifier=None, **kwargs):
        self.components.append([baseGlyphName, [float(x) for x in transformation], identifier])


def _anchor(a):
    g = a.get if hasattr(a, "get") and not hasattr(a, "__attrs_attrs__") else None
    if g is not None:
        return [g("name"), g("x"), g("y"), g("color"), g("identifier")]
    return [a.name, a.x, a.y, getattr(a, "color", None), getattr(a, "identifier", None)]


def _guideline(gl):
    keys = ("x", "y", "angle", "name", "color", "identifier")
    if hasattr(gl, "__attrs_attrs__"):
        return [getattr(gl, k, None) for k in keys]
    if hasattr(gl, "get"):
        return [gl.get(k) for k in keys]
    return [getattr(gl, k, None) for k in keys]


def _image(img):
    if img is None:
        return None
    fn = getattr(img, "fileName", None)
    if fn is None and hasattr(img, "get"):
        fn = img.get("fileName")
    if fn is None:
        return None
    tr = getattr(img, "transformation", None)
    color = getattr(img, "color", None)
    return [fn, [float(x) for x in tr] if tr is not None else None, color]


def snap_glyph(g, full=True):
    pen = _SnapPen()
    g.drawPoints(pen)
    d = {
        "width": g.width,
        "height": g.height,
        "unicodes": list(g.unicodes),
        "contours": pen.contours,
        "components": pen.components,
        "anchors": [_anchor(a) for a in g.anchors],
        "lib": norm(dict(g.lib)),
    }
    if full:
        d["guidelines"] = [_guideline(x) for x in (g.guidelines or [])]
        d["image"] = _image(getattr(g, "image", None))
        d["note"] = getattr(g, "note", None)
        vo = getattr(g, "verticalOrigin", None)
        d["verticalOrigin"] = vo
    return d


def snap_glyphset(gs, full=False):
    """Snapshot of a ufo2ft glyph set (dict name -> glyph) or layer."""
    return {name: snap_glyph(gs[name], full=full) for name in gs.keys()}


def _is_ufolib2(font):
    return type(font).__module__.startswith("ufoLib2")


def _snap_layer(layer, peek):
    d = {"color": norm(getattr(layer, "color", None)), "lib": norm(dict(layer.lib))}
    glyphs = {}
    raw = getattr(layer, "_glyphs", None) if peek else None
    if raw is not None:
        from ufoLib2.objects.layer import _GLYPH_NOT_LOADED

        for name, g in raw.items():
            glyphs[name] = NOT_LOADED if g is _GLYPH_NOT_LOADED else snap_glyph(g)
    else:
        for g in layer:
            glyphs[g.name] = snap_glyph(g)
    d["glyphs"] = glyphs
    return d


def _snap_datastore(store, peek):
    raw = getattr(store, "_data", None) if peek else None
    out = {}
    if raw is not None:
        from ufoLib2.objects.misc import _DATA_NOT_LOADED

        for fn, data in raw.items():
            out[fn] = NOT_LOADED if data is _DATA_NOT_LOADED else bytes(data)
        return out
    for fn in store.fileNames:
        out[fn] = bytes(store[fn])
    return out


def snap_font(font, peek=True):
    """Everything C07 names: layers (glyphs, libs), font lib, info, kerning,
    groups, features, data, images."""
    u2 = _is_ufolib2(font)
    peek = peek and u2
    d = {}
    layers = {}
    order = []
    if u2:
        raw = font.layers._layers if peek else None
        from ufoLib2.objects.layerSet import _LAYER_NOT_LOADED

        for name in font.layers.layerOrder:
            order.append(name)
            if raw is not None and raw[name] is _LAYER_NOT_LOADED:
                layers[name] = NOT_LOADED
            else:
                layers[name] = _snap_layer(font.layers[name], peek)
        d["defaultLayer"] = font.layers.defaultLayer.name
    else:
        for layer in font.layers:
            order.append(layer.name)
            layers[layer.name] = _snap_layer(layer, False)
        d["defaultLayer"] = font.layers.defaultLayer.name
    d["layerOrder"] = order
    d["layers"] = layers
    d["lib"] = norm(dict(font.lib))
    info = {}
    for a in INFO_ATTRS:
        v = getattr(font.info, a, None)
        if v is not None:
            info[a] = norm(v)
    d["info"] = info
    d["kerning"] = {"%s|%s" % k: v for k, v in font.kerning.items()}
    d["groups"] = {k: list(v) for k, v in font.groups.items()}
    d["features"] = font.features.text or ""
    d["data"] = _snap_datastore(font.data, peek) if hasattr(font, "data") else {}
    d["images"] = _snap_datastore(font.images, peek) if hasattr(font, "images") else {}
    return d


# ----------------------------------------------------------------- designspace

_DS_ATTRS = (
    "path", "filename", "formatVersion", "elidedFallbackName", "axes", "axisMappings",
    "locationLabels", "rules", "rulesProcessingLast", "sources", "variableFonts",
    "instances", "lib",
)


def _snap_desc(obj):
    if obj is None or isinstance(obj, (bool, int, float, str, bytes)):
        return obj
    if isinstance(obj, dict):
        return {str(k): _snap_desc(v) for k, v in obj.items()}
    if isinstance(obj, (list, tuple)):
        return [_snap_desc(v) for v in obj]
    if isinstance(obj, enum.Enum):
        return obj.value
    d = getattr(obj, "__dict__", None)
    if d is not None and type(obj).__module__.startswith("fontTools.designspaceLib"):
        out = {"__class__": type(obj).__name__}
        for k, v in d.items():
            if k == "font":
                out["font#id"] = None if v is None else id(v)
            else:
                out[k] = _snap_desc(v)
        return out
    return repr(obj)


def snap_designspace(doc):
    d = {}
    for a in _DS_ATTRS:
        d[a] = _snap_desc(getattr(doc, a, None))
    return d


# ----------------------------------------------------------------- diff


def diff(a, b, path="", out=None, limit=40):
    """Paths at which snapshots a (expected) and b (observed) differ."""
    if out is None:
        out = []
    if len(out) >= limit:
        return out
    if a is NOT_LOADED or b is NOT_LOADED or a == NOT_LOADED or b == NOT_LOADED:
        return out
    if isinstance(a, dict) and isinstance(b, dict):
        for k in a:
            if k not in b:
                out.append(path + "/" + str(k) + " (removed)")
            else:
                diff(a[k], b[k], path + "/" + str(k), out, limit)
        for k in b:
            if k not in a:
                out.append(path + "/" + str(k) + " (added)")
        return out
    if isinstance(a, list) and isinstance(b, list):
        if len(a) != len(b):
            out.append(path + " (len %d -> %d)" % (len(a), len(b)))
            return out
        for i, (x, y) in enumerate(zip(a, b)):
            diff(x, y, path + "/" + str(i), out, limit)
        return out
    if a != b or (isinstance(a, bool) != isinstance(b, bool)):
        out.append(path + " (%s -> %s)" % (_short(a), _short(b)))
    return out


def _short(v):
    s = repr(v)
    return s if len(s) <= 60 else s[:57] + "..."


def generalise(path):
    """Turn a concrete diff path into a finding signature: drop glyph / layer
    names, list indices and the old/new values."""
    import re

    p = path.split(" (")[0]
    tail = " (added)" if path.endswith("(added)") else " (removed)" if path.endswith("(removed)") else ""
    parts = p.split("/")
    out = []
    i = 0
    while i < len(parts):
        part = parts[i]
        if part in ("layers", "glyphs") and i + 1 < len(parts):
            out.append(part)
            out.append("*")
            i += 2
            continue
        if re.fullmatch(r"\d+", part):
            out.append("#")
        else:
            out.append(part)
        i += 1
    return "/".join(out) + tail
