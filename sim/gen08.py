"""C08 - output is a pure function of UFO content and options.

A *case* is a world plus a list of compared compile steps.  A *variant* says how
those steps are executed: materialisation (library, memory/disk, insertion and
listing order), environment (TZ, clock trajectory; SOURCE_DATE_EPOCH is pinned per
case), history (fresh objects per step vs one shared history, step order, faulted
attempts before a step, repeated calls, inplace on a throw-away copy) and the
process incarnation (PYTHONHASHSEED) it runs in.  Every variant must produce, for
every step id, the digest the canonical variant produced."""
from __future__ import annotations

import copy
import random

from . import corpusworlds, executor, gen07, materialize, ops, world

PROP = "C08"

CANON_ENV = {"tz": "UTC", "clock": {"start": 1.7e9, "jumps": [1]}}
CANON_MAT = {"mode": "u2mem", "order_key": None, "perm_key": None, "ds_names": True}

# corpus worlds whose output depends on call history through a listed known finding
LEAKY_CORPUS = ("TestMathFont-Regular.ufo", "ColorTest.ufo")
# features.fea uses include() relative to the UFO *path*: an in-memory font has no
# path, so memory-vs-disk legitimately differs (the include cannot be resolved)
PATH_DEPENDENT_CORPUS = ("Bug108.ufo",)
SDES = [0, 1, 1700000000, 2147483648, 4102444800]


def pick_world(rng, p_corpus=0.2, max_glyphs=12):
    if rng.random() < p_corpus:
        while True:
            w = rng.choice(corpusworlds.all_corpus_worlds())
            if not any(u in LEAKY_CORPUS + PATH_DEPENDENT_CORPUS for u in w["corpus"]):
                return w
    return world.gen_family(rng, forbid=gen07.LEAKY, max_glyphs=max_glyphs)


def pick_leaky_world(rng):
    """Worlds that reach the call sites of the open source-mutation findings
    (MATH pop, colour lib key, dotted-circle ensure_base).  Their output depends
    on call *history* by those listed defects, so they are only used in
    history-free cases (every step on fresh objects, no repeats, no faulted
    attempts); every other dimension is still compared."""
    if rng.random() < 0.25:
        return {"corpus": [rng.choice(["TestMathFont-Regular.ufo", "ColorTest.ufo", "DottedCircleTest.ufo"])]}
    force = rng.sample(gen07.LEAKY, rng.randint(1, 2))
    if "dottedcircle" in force or rng.random() < 0.6:
        force.append("marks")  # the dotted-circle filter only acts when marks attach
    return world.gen_family(rng, force=force, max_glyphs=12)


def gen_case(seed, profile=None):
    profile = profile or {}
    rng = random.Random(seed)
    history_free = rng.random() < profile.get("p_history_free", 0.22)
    if history_free:
        spec = pick_leaky_world(rng)
    else:
        spec = pick_world(rng, p_corpus=profile.get("p_corpus", 0.27))
    cid = "c08-%d" % seed
    info = gen07.world_info(spec, key=cid)
    n = rng.randint(profile.get("min_steps", 2), profile.get("max_steps", 5))
    p_opt = rng.choice([0.1, 0.25, 0.45])
    steps = gen07.gen_steps(rng, info, n, p_opt, allow_gen_interleave=False, p_reopen=0.0)
    steps = [s for s in steps if s["op"] in ops.ALL_OPS]
    for i, s in enumerate(steps):
        s["sid"] = i
        # DottedCircleFilter writes to the source font (open finding
        # KF-C07-dottedcircle-ensure_base), which makes later output depend on
        # history by that listed defect: keep it out of the sampled C08 steps
        fl = s.get("opts", {}).get("filters")
        # ... and the filter parses the feature file without any include directory (open
        # finding KF-C08-dottedcircle-include-dir): not combined with include() worlds
        has_inc = bool(spec.get("include_files")) if isinstance(spec, dict) else False
        if fl and (not history_free or has_inc):
            s["opts"]["filters"] = [d for d in fl if not (isinstance(d, dict) and d.get("cls") == "DottedCircleFilter")]
        if history_free:
            # long-lived option objects would carry history between the steps
            for key in ("filters", "featureWriters"):
                for d in s.get("opts", {}).get(key, []) or []:
                    if isinstance(d, dict):
                        d.pop("ref", None)
        # shared long-lived option objects are part of the history dimension only:
        # keep refs (the same object may serve several steps of one variant)
    case = {"id": cid, "seed": seed, "world": {"spec": spec}, "sde": rng.choice(SDES), "steps": steps,
            "history_free": history_free,
            "info": {"n_fonts": info["n_fonts"], "has_ds": info["has_ds"],
                     "lib_filters": info.get("lib_filters", []), "lib_skip": info.get("lib_skip", False)}}
    return case, rng


ANCHOR_MOVING_LIB = ("transformations", "transformationsfilter", "propagateanchors", "propagateanchorsfilter",
                     "dottedcircle", "dottedcirclefilter")
ANCHOR_MOVING_CLS = ("TransformationsFilter", "PropagateAnchorsFilter", "PropagateAnchorsIFilter",
                     "DottedCircleFilter")


def varfea_anchor_gap(case, step):
    """Precondition of the open finding KF-C08-varfea-unfiltered-anchors: a
    variable-feature build whose filters move or add anchors."""
    if not step["op"].startswith("compileVariable"):
        return False
    o = step.get("opts", {})
    if o.get("variableFeatures") is False:
        return False
    fl = o.get("filters")
    lib_active = fl is None or "..." in fl
    if lib_active and any(n in ANCHOR_MOVING_LIB for n in case.get("info", {}).get("lib_filters", [])):
        return True
    return any(isinstance(d, dict) and d.get("cls") in ANCHOR_MOVING_CLS for d in (fl or []))


COMPONENT_RESHAPING_LIB = ("flattencomponents", "flattencomponentsfilter")
COMPONENT_RESHAPING_CLS = ("FlattenComponentsFilter", "FlattenComponentsIFilter", "SkipExportGlyphsFilter",
                           "SkipExportGlyphsIFilter")


def ttflags_gap(case, step):
    """Precondition of the open finding KF-C08-ttflags-source-glyph: a TrueType
    build in which a filter changes the number of components of a glyph that
    stays composite (flattening, partial decomposition of non-export glyphs)."""
    if step["op"] not in ops.TTF_FAMILY:
        return False
    o = step.get("opts", {})
    if o.get("flattenComponents") or o.get("skipExportGlyphs") or case.get("info", {}).get("lib_skip"):
        return True
    fl = o.get("filters")
    lib_active = fl is None or "..." in fl
    if lib_active and any(n in COMPONENT_RESHAPING_LIB for n in case.get("info", {}).get("lib_filters", [])):
        return True
    return any(isinstance(d, dict) and d.get("cls") in COMPONENT_RESHAPING_CLS for d in (fl or []))


def canonical_variant():
    return {"vid": 0, "inc": 0, "mat": dict(CANON_MAT), "env": dict(CANON_ENV), "fresh": True,
            "order": None, "repeat": [], "faulted": {}, "inplace": []}


def gen_variant(rng, case, vid, inc, extents):
    """A non-canonical way of executing the case's steps."""
    n = len(case["steps"])
    corpus = "corpus" in case["world"]["spec"]
    modes = [("u2mem", 18), ("u2lazy", 25), ("u2eager", 8), ("dcmem", 18), ("dcdisk", 10), ("u2disk", 12)]
    # stratify over the incarnations so that every case meets the library, the
    # memory-vs-disk and the insertion-order dimensions at least once
    mode = gen07._wchoice(rng, modes)
    forced = {0: ("u2lazy", "u2disk", "u2eager"), 1: ("dcmem", "dcdisk"), 2: ("u2mem",)}.get(inc % 5)
    if forced:
        mode = rng.choice(forced)
    mat = {"mode": mode,
           "order_key": "v%d" % rng.randrange(10 ** 6) if (rng.random() < 0.7 or inc % 5 == 2) else None,
           "perm_key": "l%d" % rng.randrange(10 ** 6) if rng.random() < 0.7 else None,
           "ds_names": True}
    env = {"tz": rng.choice(gen07.TZS),
           "clock": {"start": rng.choice([0, 1, 1.7e9, 2.3e9, 4.2e9]),
                     "jumps": [rng.choice([0, 1, 37, 86400, -7200, 3.15e7]) for _ in range(3)]}}
    fresh = rng.random() < 0.25 or bool(case.get("history_free"))
    order = None
    if n > 1 and rng.random() < 0.5:
        order = list(range(n))
        rng.shuffle(order)
    repeat = [i for i in range(n) if rng.random() < 0.25 and not case.get("history_free")]
    faulted = {}
    if extents and rng.random() < 0.5 and not case.get("history_free"):
        for i in range(n):
            if rng.random() < 0.4:
                ext = extents.get(i) or {}
                if ext.get("calls"):
                    faulted[str(i)] = {"kind": rng.choice(["trace", "trace", "mem", "intr"]),
                                       "at": rng.randint(1, ext["calls"]),
                                       "gran": "call"}
    inplace = [i for i in range(n) if rng.random() < 0.15 and not varfea_anchor_gap(case, case["steps"][i])
               and not ttflags_gap(case, case["steps"][i])]
    # (inplace steps run on a throw-away, identically materialised world, so they
    # are history-free by construction and allowed in history-free cases too)
    return {"vid": vid, "inc": inc, "mat": mat, "env": env, "fresh": fresh, "order": order,
            "repeat": repeat, "faulted": faulted, "inplace": inplace}


def variant_scenario(case, var):
    """Expand (case, variant) into an executable scenario.  Steps whose digest
    is to be compared carry ``sid``; helper steps (faulted attempts, repeats)
    carry ``aux``."""
    steps = []
    order = var.get("order") or list(range(len(case["steps"])))
    for k, i in enumerate(order):
        base = copy.deepcopy(case["steps"][i])
        if var.get("fresh") and k > 0:
            steps.append({"op": "reopen"})
        f = (var.get("faulted") or {}).get(str(i))
        if f:
            aux = copy.deepcopy(base)
            aux.pop("sid", None)
            aux["aux"] = "faulted"
            aux["fault"] = f
            steps.append(aux)
        if i in (var.get("repeat") or []):
            aux = copy.deepcopy(base)
            aux.pop("sid", None)
            aux["aux"] = "repeat"
            steps.append(aux)
        if i in (var.get("inplace") or []):
            base["inplace"] = True
        steps.append(base)
    env = dict(var["env"])
    env["sde"] = case["sde"]
    return {"id": "%s-v%d" % (case["id"], var["vid"]), "seed": case["seed"], "property": PROP,
            "world": case["world"], "mat": var["mat"], "env": env, "steps": steps}


def run_variant(case, var, scratch_root=None, tables=False):
    """Execute one variant; returns {sid: {"outcome":..., "digests": [...]}} and extents."""
    scn = variant_scenario(case, var)
    res = executor.run_scenario(scn, want_digests=True, check_sources=False,
                                scratch_root=scratch_root, want_tables=tables)
    out, extents = {}, {}
    for st, ev in zip(scn["steps"], res["events"]):
        if "sid" not in st:
            continue
        rec = {"outcome": ev.get("outcome"), "digests": ev.get("digests")}
        if tables and ev.get("tables"):
            rec["tables"] = ev["tables"]
        out[str(st["sid"])] = rec
        extents[st["sid"]] = ev.get("extent")
    stats = {"clock": res["clock"], "events": [
        {"op": e["op"], "outcome": e.get("outcome"), "fired": e.get("fired")} for e in res["events"]]}
    return out, extents, stats


def compare(canon, other):
    """Step ids whose outcome/digests differ from the canonical variant's."""
    bad = []
    for sid, a in canon.items():
        b = other.get(sid)
        if b is None:
            bad.append((sid, "missing"))
            continue
        if a["outcome"] != b["outcome"]:
            bad.append((sid, "outcome %s vs %s" % (a["outcome"], b["outcome"])))
        elif a.get("digests") != b.get("digests"):
            bad.append((sid, "digest"))
    return bad


def dims_of(var):
    """Which dimensions this variant perturbs (for coverage accounting)."""
    d = []
    m = var["mat"]
    d.append("mat:" + m["mode"])
    if m.get("order_key"):
        d.append("insertion-order")
    if m.get("perm_key"):
        d.append("listing-order")
    if var["env"]["tz"] != "UTC":
        d.append("tz")
    if var["env"]["clock"] != CANON_ENV["clock"]:
        d.append("clock")
    d.append("fresh-objects" if var.get("fresh") else "shared-history")
    if var.get("order"):
        d.append("step-order")
    if var.get("repeat"):
        d.append("repeat-call")
    if var.get("faulted"):
        d.append("after-faulted-call")
    if var.get("inplace"):
        d.append("inplace")
    return d
