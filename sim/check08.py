"""C08 check: the same session executed in several process incarnations
(PYTHONHASHSEED) and variants; all digests must equal the canonical ones."""
from __future__ import annotations

import copy
import json
import os
import random
import shutil
import subprocess
import sys
import tempfile
import time

from . import VERIF_DIR, corpusworlds, driver, findings, gen07, gen08
from .pool import HarnessError, run_pool

PROP = "C08"
LEVEL = "exploration"

ASSUMPTIONS = [
    "byte equality of TTFont.save output is the oracle; exception *types* are compared, messages are not",
    "every compared step runs with SOURCE_DATE_EPOCH pinned (the property only speaks once it pins the timestamps)",
    "worlds that reach the call sites of the open source-mutation findings (MATH constants pop, colour lib key, dotted-circle ensure_base) make output history-dependent by those listed defects; they are used only in history-free cases (every step on fresh objects, no repeated / faulted / inplace steps) where all other dimensions are still compared, and the history effect itself is shown by directed KNOWN-FINDING cases",
    "steps that meet the precondition of KF-C08-varfea-unfiltered-anchors do not draw the inplace dimension",
    "cffsubr/tx, compreffor, pyclipper and skia-pathops are treated as deterministic functions of their input",
    "hash-seed incarnations are fresh interpreters; only the scenario (durable state) crosses the restart",
]

COMPONENTS = {
    "real": ["ufo2ft (working tree /repo/Lib)", "fontTools", "ufoLib2", "defcon", "fontMath", "booleanOperations",
             "skia-pathops", "compreffor", "cffsubr + tx child process", "CPython string hashing (one interpreter per incarnation)"],
    "stub": ["disk (SimFS / scratch dir)", "clock (SimClock)", "TZ and SOURCE_DATE_EPOCH (set per variant/case)"],
}


def hash_seeds(seed, k):
    rng = random.Random(seed * 7919 + 13)
    out = [0]
    while len(out) < k:
        h = rng.randrange(1, 2 ** 32 - 1)
        if h not in out:
            out.append(h)
    return out


def _phase1(task):
    """Generate a case, run its canonical variant (hash seed 0) and plan the
    other variants from the measured extents."""
    seed, n_inc, profile = task
    case, rng = gen08.gen_case(seed, profile)
    canon_var = gen08.canonical_variant()
    canon, extents, stats = gen08.run_variant(case, canon_var)
    variants = [canon_var]
    vid = 1
    for inc in range(n_inc):
        per = profile.get("variants_per_inc", 1)
        for _ in range(per):
            variants.append(gen08.gen_variant(rng, case, vid, inc, extents))
            vid += 1
    return {"case": case, "canon": canon, "variants": variants, "stats": stats}


def _run_items(task):
    """Run (case, variant) items inside the current interpreter."""
    items = task
    out = []
    for case, var in items:
        res, _, stats = gen08.run_variant(case, var)
        out.append({"cid": case["id"], "vid": var["vid"], "res": res, "stats": stats})
    return out


def worker_main(path):
    """Entry point of an incarnation subprocess: ./check C08 --worker FILE."""
    with open(path) as f:
        items = json.load(f)
    out = _run_items([(it["case"], it["var"]) for it in items])
    with open(path + ".out", "w") as f:
        json.dump(out, f)
    return 0


def run_incarnation_jobs(jobs, workers, timeout=1500):
    """jobs: list of (hashseed, items).  Each job is a fresh interpreter."""
    scratch = tempfile.mkdtemp(prefix="verif-c08-")
    results = []
    running = []
    try:
        pending = list(enumerate(jobs))
        t0 = time.monotonic()
        while pending or running:
            while pending and len(running) < workers:
                ji, (hs, items) = pending.pop(0)
                path = os.path.join(scratch, "job%d.json" % ji)
                with open(path, "w") as f:
                    json.dump([{"case": c, "var": v} for c, v in items], f)
                env = dict(os.environ)
                env["PYTHONHASHSEED"] = str(hs)
                env["VERIF_REEXEC"] = "1"
                logf = open(path + ".log", "w")
                p = subprocess.Popen([sys.executable, os.path.join(VERIF_DIR, "check"), PROP, "--worker", path],
                                     env=env, stdout=logf, stderr=subprocess.STDOUT, text=True)
                logf.close()
                running.append((ji, hs, path, p, time.monotonic()))
            still = []
            for ji, hs, path, p, ts in running:
                rc = p.poll()
                if rc is None:
                    if time.monotonic() - ts > timeout:
                        p.kill()
                        raise HarnessError("incarnation job %d (hash seed %s) timed out" % (ji, hs))
                    still.append((ji, hs, path, p, ts))
                    continue
                with open(path + ".log") as lf:
                    out = lf.read()
                if rc != 0 or not os.path.exists(path + ".out"):
                    raise HarnessError("incarnation job %d (hash seed %s) failed rc=%s: %s" % (ji, hs, rc, out[-2000:]))
                with open(path + ".out") as f:
                    for pos, r in enumerate(json.load(f)):
                        r["hashseed"] = hs
                        r["job"] = ji
                        r["pos"] = pos
                        results.append(r)
                for suffix in ("", ".out", ".log"):
                    os.remove(path + suffix)
            running = still
            if running:
                time.sleep(0.05)
    finally:
        for _ji, _hs, _path, p, _ts in running:
            try:
                p.kill()
            except Exception:
                pass
        shutil.rmtree(scratch, ignore_errors=True)
    return results


# ----------------------------------------------------------------- replay / minimise


def _run_pair(case, var, hashseed, tables=False):
    """Run canonical (hash seed 0) and ``var`` (its hash seed), each in a fresh
    interpreter; return (canon_res, var_res)."""
    canon = gen08.canonical_variant()
    jobs = [(0, [(case, canon)]), (hashseed, [(case, var)])]
    res = run_incarnation_jobs(jobs, workers=2)
    a = [r for r in res if r["vid"] == 0 and r["hashseed"] == 0][0]["res"]
    b = [r for r in res if not (r["vid"] == 0 and r["hashseed"] == 0)]
    b = b[0]["res"] if b else a
    return a, b


def pair_differs(case, var, hashseed, sids=None):
    a, b = _run_pair(case, var, hashseed)
    bad = gen08.compare(a, b)
    if sids is not None:
        bad = [x for x in bad if x[0] in sids] or bad
    return bad


def minimise_pair(case, var, hashseed, max_runs=40, max_s=120):
    """Reduce (case, variant, hash seed) while some compared step still differs."""
    t_end = time.monotonic() + max_s
    runs = [0]

    def differs(c, v, h):
        if runs[0] >= max_runs or time.monotonic() > t_end:
            return False
        runs[0] += 1
        try:
            return bool(pair_differs(c, v, h))
        except HarnessError:
            return False

    case, var = copy.deepcopy(case), copy.deepcopy(var)
    # variant dimensions back to canonical, one at a time
    trials = [
        ("hashseed", None),
        ("faulted", {}), ("repeat", []), ("inplace", []), ("order", None), ("fresh", True),
    ]
    for key, val in trials:
        if key == "hashseed":
            if hashseed != 0 and differs(case, var, 0):
                hashseed = 0
            continue
        if var.get(key) != val:
            v2 = copy.deepcopy(var)
            v2[key] = val
            if differs(case, v2, hashseed):
                var = v2
    for key, val in (("mode", "u2mem"), ("order_key", None), ("perm_key", None)):
        if var["mat"].get(key) != val:
            v2 = copy.deepcopy(var)
            v2["mat"][key] = val
            if differs(case, v2, hashseed):
                var = v2
    if var["env"] != gen08.CANON_ENV:
        v2 = copy.deepcopy(var)
        v2["env"] = dict(gen08.CANON_ENV)
        if differs(case, v2, hashseed):
            var = v2
    # drop steps
    i = len(case["steps"]) - 1
    while i >= 0 and len(case["steps"]) > 1:
        c2 = copy.deepcopy(case)
        sid = c2["steps"][i]["sid"]
        del c2["steps"][i]
        for j, s in enumerate(c2["steps"]):
            s["sid"] = j
        v2 = copy.deepcopy(var)
        v2["order"] = None
        v2["repeat"] = []
        v2["faulted"] = {}
        v2["inplace"] = []
        if differs(c2, v2, hashseed):
            case, var = c2, v2
        i -= 1
    # options
    for i, st in enumerate(case["steps"]):
        for k in list(st.get("opts", {})):
            c2 = copy.deepcopy(case)
            c2["steps"][i]["opts"].pop(k)
            if differs(c2, var, hashseed):
                case = c2
    # world (generated specs only)
    from . import minimize

    if "corpus" not in case["world"]["spec"]:
        budget = minimize.Budget(max_runs=max(0, max_runs - runs[0]), max_s=max(1.0, t_end - time.monotonic()))

        def fails(scn):
            c2 = copy.deepcopy(case)
            c2["world"] = scn["world"]
            c2["steps"] = [s for s in scn["steps"]]
            return differs(c2, var, hashseed)

        pseudo = {"id": None, "world": case["world"], "steps": case["steps"], "mat": var["mat"]}
        small = minimize.shrink_world(pseudo, fails, budget)
        case["world"] = small["world"]
        case["steps"] = small["steps"]
    return case, var, hashseed, runs[0]


def _history_differs(items, hashseed, cid, vid):
    """Run ``items`` in order in ONE fresh interpreter; compare the target item's
    outputs with the canonical variant of its case run alone (hash seed 0)."""
    case = [c for c, v in items if c["id"] == cid][-1]
    res = run_incarnation_jobs([(0, [(case, gen08.canonical_variant())]), (hashseed, list(items))], workers=2)
    a = [r for r in res if r["job"] == 0][0]["res"]
    b = [r for r in res if r["job"] == 1 and r["cid"] == cid and r["vid"] == vid][-1]["res"]
    return gen08.compare(a, b)


def _minimise_history(items, hashseed, cid, vid, max_runs=12):
    items = list(items)
    runs = 0
    # first halve the prefix (the target item stays last), then drop single items
    while len(items) > 2 and runs < max_runs:
        k = (len(items) - 1) // 2
        cand = items[k:]
        runs += 1
        try:
            if _history_differs(cand, hashseed, cid, vid):
                items = cand
                continue
        except HarnessError:
            pass
        break
    i = len(items) - 2
    while i >= 0 and runs < max_runs:
        cand = items[:i] + items[i + 1:]
        runs += 1
        try:
            if _history_differs(cand, hashseed, cid, vid):
                items = cand
        except HarnessError:
            pass
        i -= 1
    return items


def replay(path, quiet=False):
    with open(path) as f:
        payload = json.load(f)
    if payload.get("kind") == "job_history":
        items = [(it["case"], it["var"]) for it in payload["items"]]
        bad = _history_differs(items, payload["hashseed"], payload["target"][0], payload["target"][1])
        if not quiet:
            print("history of %d (case, variant) items in one interpreter, hash seed %s; target %s"
                  % (len(items), payload["hashseed"], payload["target"]))
        if bad:
            print("  differing steps: %s" % bad)
            print("VIOLATION property=%s replay=%s" % (PROP, path))
            return 1
        print("replay: no difference")
        return 0
    case, var, hs = payload["case"], payload["variant"], payload["hashseed"]
    canon = gen08.canonical_variant()
    jobs = [(0, [(case, canon)]), (hs, [(case, var)])]
    # ask the workers for per-table digests through the env (diagnosis only)
    res = run_incarnation_jobs(jobs, workers=2)
    a = [r for r in res if r["vid"] == 0 and r["hashseed"] == 0][0]["res"]
    bl = [r for r in res if not (r["vid"] == 0 and r["hashseed"] == 0)]
    b = bl[0]["res"] if bl else a
    bad = gen08.compare(a, b)
    if payload.get("known_finding"):
        fid = payload["known_finding"]
        if bad:
            print("KNOWN-FINDING: property=%s finding=%s differing steps %s" % (PROP, fid, bad))
        return 0
    if not quiet:
        print("canonical: hash seed 0, %s" % json.dumps(canon["mat"]))
        print("variant  : hash seed %s, dims %s" % (hs, gen08.dims_of(var)))
        for sid in sorted(a):
            print("  step %s %-32s canon=%s variant=%s" % (
                sid, case["steps"][int(sid)]["op"], (a[sid]["digests"] or a[sid]["outcome"]),
                (b.get(sid, {}).get("digests") or b.get(sid, {}).get("outcome"))))
    if bad:
        print("  differing steps: %s" % bad)
        print("VIOLATION property=%s replay=%s" % (PROP, path))
        return 1
    print("replay: no difference")
    return 0


# ----------------------------------------------------------------- directed known findings


def directed_known():
    out = []
    for f in findings.open_findings(PROP):
        if f.get("case"):
            out.append(f)
    return out


# ----------------------------------------------------------------- main


def main(args):
    if getattr(args, "worker", None):
        return worker_main(args.worker)
    t0 = time.monotonic()
    seed = int(os.environ.get("VERIF_SEED", args.seed))
    tier = args.tier
    workers = args.workers
    n_cases = args.runs or (288 if tier == "quick" else 2000)
    n_inc = args.incarnations or (5 if tier == "quick" else 10)
    hs = hash_seeds(seed, n_inc)
    profile = {"variants_per_inc": 1}
    seeds = [seed * 1000003 + i for i in range(n_cases)]
    try:
        p1 = run_pool(_phase1, [(s, n_inc, profile) for s in seeds], workers=workers, task_timeout=600)
    except HarnessError as e:
        print("HARNESS-ERROR: %s" % e)
        return 2
    cases = {}
    canon = {}
    by_inc = {i: [] for i in range(n_inc)}
    total_variants = 0
    dims = {}
    sim_seconds = 0.0
    clock_reads = 0
    for r in p1:
        res = r["res"]
        c = res["case"]
        cases[c["id"]] = c
        canon[c["id"]] = res["canon"]
        sim_seconds += res["stats"]["clock"].get("covered_s", 0)
        clock_reads += res["stats"]["clock"].get("reads", 0)
        for v in res["variants"][1:]:
            by_inc[v["inc"]].append((c, v))
            total_variants += 1
            for d in gen08.dims_of(v):
                dims[d] = dims.get(d, 0) + 1
    # known-finding directed cases ride along in incarnation 0/1
    directed = directed_known()
    # jobs: split every incarnation's items into chunks so that all cores are busy
    jobs = []
    # (at most 80 items per interpreter: a mismatch that only shows after other items
    # ran in the same process is replayed with its job prefix as history, which must
    # stay short enough to re-run and to minimise)
    per_job = min(80, max(4, (total_variants // max(1, workers * 2)) + 1))
    for inc, items in by_inc.items():
        for k in range(0, len(items), per_job):
            jobs.append((hs[inc], items[k:k + per_job]))
    try:
        results = run_incarnation_jobs(jobs, workers=workers)
    except HarnessError as e:
        print("HARNESS-ERROR: %s" % e)
        return 2
    compared = 0
    mism = []
    outcomes = {}
    faults_fired = {}
    distinct = set()
    var_by_id = {}
    for inc, items in by_inc.items():
        for c, v in items:
            var_by_id[(c["id"], v["vid"])] = v
    for r in results:
        c = cases[r["cid"]]
        v = var_by_id[(r["cid"], r["vid"])]
        sim_seconds += r["stats"]["clock"].get("covered_s", 0)
        clock_reads += r["stats"]["clock"].get("reads", 0)
        for e in r["stats"]["events"]:
            if e.get("fired"):
                k = e["fired"].get("kind", "?")
                faults_fired[k] = faults_fired.get(k, 0) + 1
        bad = gen08.compare(canon[r["cid"]], r["res"])
        for sid, rec in r["res"].items():
            compared += 1
            oc = rec["outcome"]
            outcomes[oc] = outcomes.get(oc, 0) + 1
            st = c["steps"][int(sid)]
            if oc == "ok":
                distinct.add((r["cid"], sid, st["op"], ",".join(sorted(st.get("opts", {}))),
                              tuple(gen08.dims_of(v)), r["hashseed"] != 0))
        if bad:
            mism.append({"case": c, "variant": v, "hashseed": r["hashseed"], "bad": bad,
                         "job": r.get("job"), "pos": r.get("pos")})
    # directed known findings
    known_counts = {}
    for f in directed:
        bad = None
        try:
            # an address-order finding shows under most, not all, hash seeds
            for hsd in f.get("hashseeds") or [f.get("hashseed", 0)]:
                a, b = _run_pair(f["case"], f["variant"], hsd)
                bad = gen08.compare(a, b)
                if bad:
                    break
        except HarnessError as e:
            print("HARNESS-ERROR: %s" % e)
            return 2
        if bad:
            known_counts[f["id"]] = len(bad)
    confirmed = 0
    harness_problem = False
    # regressions of fixed findings: a fixed entry suppresses nothing
    for f in findings.load():
        for rkey in ("regression", "regression2"):
          if f["property"] == PROP and f["status"] == "fixed" and f.get(rkey):
            rpath = os.path.join(VERIF_DIR, f[rkey])
            with open(rpath) as fh:
                pl = json.load(fh)
            try:
                a, b = _run_pair(pl["case"], pl["variant"], pl["hashseed"])
            except HarnessError as e:
                print("HARNESS-ERROR: %s" % e)
                return 2
            compared += len(a)
            if gen08.compare(a, b):
                print("VIOLATION property=%s replay=%s" % (PROP, rpath))
                print("  regression of fixed finding %s (%s)" % (f["id"], f.get("commit")))
                confirmed += 1
    if mism:
        groups = {}
        for m in mism:
            st = m["case"]["steps"][int(m["bad"][0][0])]
            key = (st["op"], m["bad"][0][1].split(" ")[0])
            groups.setdefault(key, []).append(m)
        for gi, (key, ms) in enumerate(sorted(groups.items())[:3]):
            m = min(ms, key=lambda x: len(json.dumps(x["case"])))
            try:
                c2, v2, h2, runs = minimise_pair(m["case"], m["variant"], m["hashseed"],
                                                 max_runs=30 if tier == "quick" else 80,
                                                 max_s=90 if tier == "quick" else 300)
            except Exception as e:  # noqa: BLE001
                print("note: minimiser failed: %r" % (e,))
                c2, v2, h2, runs = m["case"], m["variant"], m["hashseed"], 0
            payload = {"property": PROP, "kind": "pair", "case": c2, "variant": v2, "hashseed": h2,
                       "differing": m["bad"], "dims": gen08.dims_of(v2), "minimiser_runs": runs,
                       "how_to_replay": "./check C08 --replay <this file>"}
            path = driver.write_replay(PROP, "%d-%d" % (m["case"]["seed"], gi), payload)
            rc, out = driver.replay_in_fresh_process(PROP, path)
            if rc != 1:
                payload.update({"case": m["case"], "variant": m["variant"], "hashseed": m["hashseed"],
                                "minimiser_runs": 0, "dims": gen08.dims_of(m["variant"])})
                path = driver.write_replay(PROP, "%d-%d-orig" % (m["case"]["seed"], gi), payload)
                rc, out = driver.replay_in_fresh_process(PROP, path)
            if rc != 1 and m.get("job") is not None:
                # not reproducible alone: the interpreter's whole preceding item list
                # becomes the history (state leaking through process globals)
                hist = jobs[m["job"]][1][: m["pos"] + 1]
                hist = _minimise_history(hist, m["hashseed"], m["case"]["id"], m["variant"]["vid"])
                payload = {"property": PROP, "kind": "job_history", "hashseed": m["hashseed"],
                           "items": [{"case": c_, "var": v_} for c_, v_ in hist],
                           "target": [m["case"]["id"], m["variant"]["vid"]], "differing": m["bad"],
                           "case": m["case"], "variant": m["variant"], "dims": gen08.dims_of(m["variant"]),
                           "how_to_replay": "./check C08 --replay <this file>"}
                path = driver.write_replay(PROP, "%d-%d-history" % (m["case"]["seed"], gi), payload)
                rc, out = driver.replay_in_fresh_process(PROP, path)
            if rc == 1:
                print("VIOLATION property=%s replay=%s" % (PROP, path))
                print("  %s on %s: %s; variant dims %s, hash seed %s" % (
                    key[0], corpusworlds.describe(payload["case"]["world"]["spec"]), m["bad"],
                    payload["dims"], payload["hashseed"]))
                confirmed += 1
            else:
                print("HARNESS-ERROR: mismatch %r found in a worker does not reproduce from %s\n%s" % (key, path, out[-800:]))
                harness_problem = True
    driver.print_known(PROP, known_counts)
    wall = time.monotonic() - t0
    sample_cases = []
    for cid in sorted(cases)[:3]:
        c = cases[cid]
        sample_cases.append({"case": cid, "world": corpusworlds.describe(c["world"]["spec"]), "sde": c["sde"],
                             "steps": [{"op": s["op"], "opts": s.get("opts", {})} for s in c["steps"]],
                             "variants": [{"hashseed": hs[v["inc"]], "dims": gen08.dims_of(v)}
                                          for (cc, v) in sum(by_inc.values(), []) if cc["id"] == cid]})
    cov = {
        "evaluations": compared,
        "distinct_nontrivial": len(distinct),
        "rule": "evaluation = one compared step output (digest list or exception type) of one variant in one incarnation vs the canonical "
                "variant (fresh ufoLib2 in-memory objects, hash seed 0, UTC); distinct = distinct (case, step, function, option keys, perturbed "
                "dimensions, non-zero hash seed) among comparisons whose step compiled successfully",
        "samples": sample_cases or [{"note": "none"}],
        "simulated_runs": len(results) + len(p1),
        "seeds": len(seeds),
        "cases": len(cases),
        "incarnations": {"count": n_inc, "hash_seeds": hs, "interpreters_started": len(jobs)},
        "runs_per_hour": round((total_variants + len(cases)) / wall * 3600),
        "seeds_per_hour": round(len(seeds) / wall * 3600),
        "simulated_seconds_covered": sim_seconds,
        "clock_reads": clock_reads,
        "dimension_counts": dims,
        "faults_fired": faults_fired,
        "outcomes": outcomes,
        "known_findings_observed": known_counts,
        "components": COMPONENTS,
        "exhaustive": False,
    }
    driver.write_evidence(PROP, tier, seed, LEVEL, cov, wall, confirmed, ASSUMPTIONS)
    print("C08 %s: %d cases x %d incarnations, %d compared outputs, %d distinct, %d mismatching variants, %.0fs"
          % (tier, len(cases), n_inc, compared, len(distinct), len(mism), wall))
    if confirmed:
        return 1
    if harness_problem:
        return 2
    return 0
