"""C14 check: histories of long-lived filter objects vs fresh objects."""
from __future__ import annotations

import json
import os
import time

from . import driver, findings, gen14
from .pool import HarnessError, run_pool

PROP = "C14"
LEVEL = "exploration"

ASSUMPTIONS = [
    "comparison is by content (semantic snapshot), so a filter that replaces a glyph object by an equal one is not flagged",
    "include/exclude specifications are name lists (predicates are only exercised through the pre-processors' own lambdas); filters whose __call__ never consults include (DottedCircle, SkipExportGlyphs, ExplodeColorLayerGlyphs) are exempt from the scope clause",
    "the 'report' clause allows over-reporting: modified must be a superset of changed + added + removed glyphs",
    "cache coherence (e) is judged against a twin run of the real pre-processor that refreshes the instantiator after every filter, using fresh filter objects on fresh sources",
    "after a difference attributed to an open finding the world is restarted from pristine sources",
]
COMPONENTS = {
    "real": ["ufo2ft filters, pre-processors, instantiator (working tree /repo/Lib)", "fontTools pens/cu2qu/varLib",
             "ufoLib2", "defcon", "fontMath", "booleanOperations", "skia-pathops"],
    "stub": ["disk (SimFS for the u2lazy mode)", "crash points (sys.settrace) aborting invocations"],
}


def _seed_task(task):
    seed, profile = task
    return gen14.run_seed(seed, profile)


def replay(path, quiet=False):
    with open(path) as f:
        payload = json.load(f)
    scn = payload["scenario"]
    res = gen14.execute(scn)
    if not quiet:
        for ev in res["events"]:
            print("  step %s %-14s %-18s returned=%s fired=%s" % (ev.get("i"), ev["op"], ev.get("outcome"),
                                                               ev.get("returned"), json.dumps(ev.get("fired"))))
    for k in res["known"]:
        print("KNOWN-FINDING: property=%s finding=%s step=%d" % (PROP, k["finding"], k["step"]))
    if res["violations"]:
        for v in res["violations"]:
            for m in v["paths"]:
                print("  violation at step %d: %s" % (v["step"], m[:500]))
        print("VIOLATION property=%s replay=%s" % (PROP, path))
        return 1
    print("replay: no violation")
    return 0


def main(args):
    t0 = time.monotonic()
    seed = int(os.environ.get("VERIF_SEED", args.seed))
    tier = args.tier
    n_runs = args.runs or (1200 if tier == "quick" else 40000)
    viols = []
    total = {}
    known_counts = {}
    samples = []
    # directed scenarios of open findings (and regressions of fixed ones ride on them)
    for f in findings.open_findings(PROP):
        if f.get("scenario"):
            res = gen14.execute(f["scenario"])
            hit = [k for k in res["known"] if k["finding"] == f["id"]]
            if hit:
                known_counts[f["id"]] = known_counts.get(f["id"], 0) + len(hit)
            for v in res["violations"]:
                viols.append({"scenario": f["scenario"], "violation": v, "pass": "directed"})
    # regressions of fixed findings (a fixed entry suppresses nothing)
    for f in findings.load():
        if f["property"] == PROP and f["status"] == "fixed" and str(f.get("regression", "")).endswith(".json"):
            with open(os.path.join(driver.VERIF_DIR, f["regression"])) as fh:
                rscn = json.load(fh)["scenario"]
            res = gen14.execute(rscn)
            for v in res["violations"]:
                viols.append({"scenario": rscn, "violation": v, "pass": "regression:" + f["id"]})
    seeds = [seed * 1000003 + i for i in range(n_runs)]
    try:
        results = run_pool(_seed_task, [(s, {}) for s in seeds], workers=args.workers, task_timeout=300,
                           wall_cap=args.wall_cap)
    except HarnessError as e:
        print("HARNESS-ERROR: %s" % e)
        return 2
    for r in results:
        res = r["res"]
        st = res["stats"]
        driver.merge_stats(total, {k: v for k, v in st.items() if k != "by_filter"})
        driver.merge_stats(total, {"by_filter": st["by_filter"]})
        viols.extend(res["violations"])
        for fid, n in res["known"].items():
            known_counts[fid] = known_counts.get(fid, 0) + n
        if res["sample"] and len(samples) < 4:
            samples.append(res["sample"])
    confirmed, harness_problem = (0, False)
    if viols:
        confirmed, harness_problem = driver.report_violations(PROP, viols, seed, tier, gen14.violation_pred)
    driver.print_known(PROP, known_counts)
    wall = time.monotonic() - t0
    cov = {
        "evaluations": int(total.get("calls", 0) + total.get("preproc", 0)),
        "distinct_nontrivial": len(total.get("distinct", ())),
        "rule": "evaluation = one invocation of a long-lived filter object (or one run of the real interpolatable pre-processor) "
                "followed by oracles (a) fresh-object equality, (b) source untouched, (c) scope, (d) report, (e) cache coherence; "
                "distinct = distinct (step kind, filter class, include/exclude used, non-empty report, glyph-set mode, world) among invocations that returned normally",
        "samples": samples or [{"note": "no sample kept"}],
        "simulated_runs": len(seeds),
        "seeds": len(seeds),
        "runs_per_hour": round(len(seeds) / wall * 3600),
        "seeds_per_hour": round(len(seeds) / wall * 3600),
        "simulated_seconds_covered": 0,
        "faults_configured": {"trace": total.get("faulted", 0)},
        "faults_fired": {"trace": total.get("fired", 0)},
        "invocations_by_filter": total.get("by_filter", {}),
        "probes": {
            "invocations_of_an_already_used_object": total.get("reused", 0),
            "invocations_with_nonempty_report": total.get("modified_nonempty", 0),
            "preprocessor_runs": total.get("preproc", 0),
            "aborted_invocations": total.get("fired", 0),
        },
        "distinct_interleavings": len(total.get("interleavings", ())),
        "interleaving_measure": "distinct digests of (materialisation, [(step kind, filter class, fault?, outcome class)])",
        "known_findings_observed": known_counts,
        "components": COMPONENTS,
        "exhaustive": False,
    }
    driver.write_evidence(PROP, tier, seed, LEVEL, cov, wall, confirmed, ASSUMPTIONS)
    print("C14 %s: %d histories, %d invocations, %d pre-processor runs, %d distinct, %d aborted, %.0fs"
          % (tier, len(seeds), total.get("calls", 0), total.get("preproc", 0), cov["distinct_nontrivial"],
             total.get("fired", 0), wall))
    if confirmed:
        return 1
    if harness_problem:
        return 2
    return 0
