"""C07 check: sampling tier + exhaustive crash-point enumeration tier."""
from __future__ import annotations

import json
import os
import time

from . import corpusworlds, driver, findings, gen07
from .minimize import minimise
from .pool import HarnessError, run_pool

PROP = "C07"
LEVEL = "fault_enumeration"

ASSUMPTIONS = [
    "sha256-keyed permutations and the Mersenne-twister PRNG are the only entropy; PYTHONHASHSEED is fixed by re-exec",
    "a glyph of a lazily loaded ufoLib2 font that has not been read from disk yet cannot have been modified in memory; the sealed disk image is checked separately (digest + refused writes)",
    "defcon fonts are built in memory or opened from a real scratch directory: their disk reads are not fault-injected",
    "cffsubr's tx child process, compreffor, pyclipper and skia-pathops are real and treated as deterministic",
    "crash points are function-entry (and, for a sampled third of trace faults, line) boundaries of code under Lib/ufo2ft; asynchronous exceptions inside C extensions are out of reach",
]

COMPONENTS = {
    "real": ["ufo2ft (working tree /repo/Lib)", "fontTools (feaLib, varLib, cu2qu, ttLib, ufoLib, designspaceLib)",
             "ufoLib2", "defcon", "fontMath", "booleanOperations/pyclipper", "skia-pathops", "compreffor",
             "cffsubr + tx child process"],
    "stub": ["disk (SimFS over MemoryFS; real scratch dir only for defcon/ufoLib2 path modes)",
             "clock (SimClock)", "environment (SOURCE_DATE_EPOCH, TZ)", "debug feature stream (SimStream)",
             "temp file on the feature error path", "subprocess.run (only when a subproc fault is scheduled)"],
}


def _seed_task(task):
    seed, profile = task
    return gen07.run_seed(seed, profile)


def _enum_plan_task(task):
    scn, stride = task
    plans, viols = gen07.enumeration_plans(scn, stride=stride)
    return {"scn": scn, "plans": plans, "violations": viols}


def _enum_chunk_task(task):
    scn, plans = task
    return gen07.run_enumeration_chunk(scn, plans)


def directed_known_scenarios():
    out = []
    for f in findings.open_findings(PROP):
        if f.get("scenario"):
            out.append((f["id"], f["scenario"]))
    return out


def replay(path, quiet=False):
    with open(path) as f:
        payload = json.load(f)
    scn = payload["scenario"]
    res = gen07.execute(scn)
    if not quiet:
        for ev in res["events"]:
            print("  step %s %-34s %-24s fired=%s" % (ev.get("i"), ev["op"], ev.get("outcome"),
                                                     json.dumps(ev.get("fired"))))
    for k in res["known"]:
        print("KNOWN-FINDING: property=%s finding=%s step=%d" % (PROP, k["finding"], k["step"]))
    if res["violations"]:
        for v in res["violations"]:
            print("  violation at step %d: %s" % (v["step"], "; ".join(v["paths"][:6])))
        print("VIOLATION property=%s replay=%s" % (PROP, path))
        return 1
    print("replay: no violation")
    return 0


def _report_violations(viols, seed, tier):
    """Group, minimise, write replay files, confirm in a fresh interpreter."""
    groups = {}
    for v in viols:
        key = tuple(v["violation"]["sig"][:4])
        groups.setdefault(key, []).append(v)
    confirmed = 0
    harness_problem = False
    for gi, (key, vs) in enumerate(sorted(groups.items())[:4]):
        v = min(vs, key=lambda x: (len(x["scenario"]["steps"]), len(json.dumps(x["scenario"]))))
        scn = v["scenario"]
        fails = gen07.violation_pred(v["violation"]["sig"])
        try:
            small, runs = minimise(scn, fails, fail_step=v["violation"]["step"],
                                   max_runs=150 if tier == "quick" else 300,
                                   max_s=60 if tier == "quick" else 150)
        except Exception as e:  # noqa: BLE001
            small, runs = scn, 0
            print("note: minimiser failed (%r); keeping the original scenario" % (e,))
        tag = "%d-%d" % (scn.get("seed", seed), gi)
        payload = {"property": PROP, "kind": "scenario", "scenario": small,
                   "violation": v["violation"], "found_in_pass": v["pass"],
                   "minimiser_runs": runs, "env": {"PYTHONHASHSEED": os.environ.get("PYTHONHASHSEED", "0")},
                   "how_to_replay": "./check C07 --replay <this file>"}
        path = driver.write_replay(PROP, tag, payload)
        rc, out = driver.replay_in_fresh_process(PROP, path)
        if rc != 1:
            # minimised file does not reproduce: fall back to the original scenario
            payload["scenario"] = scn
            payload["minimiser_runs"] = 0
            path = driver.write_replay(PROP, tag + "-orig", payload)
            rc, out = driver.replay_in_fresh_process(PROP, path)
        if rc == 1:
            print("VIOLATION property=%s replay=%s" % (PROP, path))
            print("  differing: %s" % "; ".join(v["violation"]["paths"][:5]))
            confirmed += 1
        else:
            print("HARNESS-ERROR: failure for signature %r found in a worker does not reproduce from %s" % (key, path))
            harness_problem = True
    return confirmed, harness_problem


def main(args):
    t0 = time.monotonic()
    seed = int(os.environ.get("VERIF_SEED", args.seed))
    tier = args.tier
    workers = args.workers
    n_runs = args.runs or (560 if tier == "quick" else 12000)
    profile = {}
    total = {}
    viols = []
    samples = []
    # 1. directed scenarios of the open known findings
    known_counts = {}
    for fid, scn in directed_known_scenarios():
        res = gen07.execute(scn)
        gen07.summarise_events(scn, res, total)
        hit = [k for k in res["known"] if k["finding"] == fid]
        if hit:
            known_counts[fid] = known_counts.get(fid, 0) + len(hit)
        for v in res["violations"]:
            viols.append({"scenario": scn, "violation": v, "pass": "directed"})
    # 1b. regressions of fixed findings (a fixed entry suppresses nothing)
    for f in findings.load():
        if f["property"] == PROP and f["status"] == "fixed" and str(f.get("regression", "")).endswith(".json"):
            with open(os.path.join(driver.VERIF_DIR, f["regression"])) as fh:
                rscn = json.load(fh)["scenario"]
            res = gen07.execute(rscn)
            gen07.summarise_events(rscn, res, total)
            for v in res["violations"]:
                viols.append({"scenario": rscn, "violation": v, "pass": "regression:" + f["id"]})
    # 2. seeded sampling
    seeds = [seed * 1000003 + i for i in range(n_runs)]
    wall_cap = args.wall_cap
    try:
        results = run_pool(_seed_task, [(s, profile) for s in seeds], workers=workers,
                           task_timeout=240, wall_cap=wall_cap)
    except HarnessError as e:
        print("HARNESS-ERROR: %s" % e)
        return 2
    runs = 0
    for r in results:
        res = r["res"]
        runs += res["runs"]
        driver.merge_stats(total, res["stats"])
        viols.extend(res["violations"])
        if res["sample"] and len(samples) < 6:
            samples.append(res["sample"])
    for fid, n in (total.get("known") or {}).items():
        known_counts[fid] = known_counts.get(fid, 0) + n
    # 3. exhaustive crash-point enumeration
    enum_cov = None
    if tier == "thorough" or args.enumerate:
        scns = gen07.enumeration_scenarios()
        if args.enum_limit:
            scns = scns[: args.enum_limit]
        stride = args.stride
        try:
            pres = run_pool(_enum_plan_task, [(s, stride) for s in scns], workers=workers, task_timeout=600)
            chunks = []
            for r in pres:
                viols.extend(r["res"]["violations"])
                pl = r["res"]["plans"]
                for k in range(0, len(pl), 250):
                    chunks.append((r["res"]["scn"], pl[k:k + 250]))
            eres = run_pool(_enum_chunk_task, chunks, workers=workers, task_timeout=3000, wall_cap=None)
        except HarnessError as e:
            print("HARNESS-ERROR: %s" % e)
            return 2
        pts = sum(r["res"]["points"] for r in eres)
        fired = sum(r["res"]["fired"] for r in eres)
        esites = set()
        for r in eres:
            esites.update(r["res"]["sites"])
            viols.extend(r["res"]["violations"])
        enum_cov = {"scenarios": len(scns), "crash_points_enumerated": pts, "fired": fired,
                    "distinct_sites": len(esites), "stride": stride,
                    "exhaustive_over": "every ufo2ft function-entry boundary (stride %d), every FS read operation (EIO and torn read) and every tx invocation of one call, each followed by a fault-free repeat of the call on the same objects" % stride}
        total["steps"] = total.get("steps", 0) + 2 * pts
        total.setdefault("sites", set()).update(esites)
        total.setdefault("faults_fired", {})
        total["faults_fired"]["enumerated"] = fired
    # 4. report
    confirmed, harness_problem = (0, False)
    if viols:
        confirmed, harness_problem = driver.report_violations(PROP, viols, seed, tier, gen07.violation_pred)
    driver.print_known(PROP, known_counts)
    wall = time.monotonic() - t0
    distinct = total.get("distinct", set())
    cov = {
        "evaluations": int(total.get("steps", 0)),
        "distinct_nontrivial": len(distinct),
        "rule": "evaluation = one executed compile/resume step followed by the full source-vs-pristine-twin comparison; "
                "distinct = distinct (function, option-key set, fault kind, fired site, materialisation mode, world) tuples "
                "among steps that crossed >= 50 ufo2ft call boundaries or had a fault fire",
        "samples": samples[:4] or [{"note": "no sample kept"}],
        "simulated_runs": runs,
        "seeds": len(seeds),
        "runs_per_hour": round(runs / wall * 3600),
        "seeds_per_hour": round(len(seeds) / wall * 3600),
        "simulated_seconds_covered": total.get("sim_seconds", 0),
        "clock_reads": total.get("clock_reads", 0),
        "faults_configured": total.get("faults_configured", {}),
        "faults_fired": total.get("faults_fired", {}),
        "distinct_fault_sites": len(total.get("sites", ())),
        "distinct_interleavings": len(total.get("interleavings", ())),
        "interleaving_measure": "distinct digests of (materialisation mode, [(operation, fault kind, outcome class) per step])",
        "outcomes": total.get("outcomes", {}),
        "probes": {
            "lazy_load_inside_compile_steps": total.get("lazy_io_steps", 0),
            "generator_parked_or_abandoned": total.get("gen_abandoned_or_parked", 0),
            "generator_resumed_after_other_calls": total.get("gen_resumed", 0),
            "reopen_steps": total.get("reopens", 0),
        },
        "known_findings_observed": known_counts,
        "enumeration": enum_cov,
        "exhaustive": False,
        "components": COMPONENTS,
    }
    driver.write_evidence(PROP, tier, seed, LEVEL, cov, wall, confirmed, ASSUMPTIONS)
    print("C07 %s: %d runs, %d steps, %d distinct, faults fired %s, %d known-finding hits, %.0fs"
          % (tier, runs, cov["evaluations"], cov["distinct_nontrivial"], json.dumps(cov["faults_fired"]),
             sum(known_counts.values()), wall))
    if confirmed:
        return 1
    if harness_problem:
        return 2
    return 0
