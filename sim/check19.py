"""C19 check: histories of requests against one long-lived Instantiator."""
from __future__ import annotations

import json
import os
import time

from . import driver, gen19
from .pool import HarnessError, run_pool

PROP = "C19"
LEVEL = "exploration"

ASSUMPTIONS = [
    "the reference model (sim/instmodel.py) uses only fontTools.varLib.models.VariationModel on raw number vectors, its own normalisation / axis-map / kerning look-up / swap code and the pristine snapshots; it makes no claim for glyphs whose masters are structurally incompatible or whose kerning precedence is ambiguous between the UFO spec and fontMath",
    "tolerance 1e-6 unrounded; with round_geometry the integer must be otRound of a number within 1e-6 of the model value",
    "non-numeric info is not compared against the model (the instantiator copies it from the default source by design); it is covered by the fresh-instantiator oracle",
    "InterpolatedLayer serves the source glyph object itself at source locations by design, so layer_get results are not scribbled on",
    "sources are attached to the designspace before from_designspace (loadSourceFonts is a no-op); lazy SimFS loading is exercised in the u2lazy materialisation",
]
COMPONENTS = {
    "real": ["ufo2ft.instantiator (working tree /repo/Lib)", "fontMath", "fontTools.varLib.models", "fontTools.designspaceLib",
             "ufoLib2", "defcon"],
    "stub": ["disk (SimFS in u2lazy mode)", "crash points (sys.settrace in ufo2ft and fontMath) failing requests"],
}


def _seed_task(task):
    seed, profile = task
    return gen19.run_seed(seed, profile)


def replay(path, quiet=False):
    with open(path) as f:
        payload = json.load(f)
    scn = payload["scenario"]
    res = gen19.execute(scn)
    if not quiet:
        for ev in res["events"]:
            print("  step %s %-16s %-20s fired=%s" % (ev.get("i"), ev["op"], ev.get("outcome"), json.dumps(ev.get("fired"))))
    if res["violations"]:
        for v in res["violations"]:
            for m in v["paths"][:6]:
                print("  violation at step %d: %s" % (v["step"], m[:500]))
        print("VIOLATION property=%s replay=%s" % (PROP, path))
        return 1
    print("replay: no violation")
    return 0


def main(args):
    t0 = time.monotonic()
    seed = int(os.environ.get("VERIF_SEED", args.seed))
    tier = args.tier
    n_runs = args.runs or (1500 if tier == "quick" else 30000)
    viols, total, samples = [], {}, []
    seeds = [seed * 1000003 + i for i in range(n_runs)]
    try:
        results = run_pool(_seed_task, [(s, {}) for s in seeds], workers=args.workers, task_timeout=300,
                           wall_cap=args.wall_cap)
    except HarnessError as e:
        print("HARNESS-ERROR: %s" % e)
        return 2
    for r in results:
        res = r["res"]
        driver.merge_stats(total, res["stats"])
        viols.extend(res["violations"])
        if res["sample"] and len(samples) < 4:
            samples.append(res["sample"])
    confirmed, harness_problem = (0, False)
    if viols:
        confirmed, harness_problem = driver.report_violations(PROP, viols, seed, tier, gen19.violation_pred)
    wall = time.monotonic() - t0
    cov = {
        "evaluations": int(total.get("requests", 0)),
        "distinct_nontrivial": len(total.get("distinct", ())),
        "rule": "evaluation = one request served by the long-lived instantiator and checked against the stateless model, a fresh instantiator, "
                "the glyph-set/swap laws and the pristine sources; distinct = distinct (request kind, location, glyph, round_geometry, world, "
                "materialisation) among requests that returned normally",
        "samples": samples or [{"note": "no sample kept"}],
        "simulated_runs": len(seeds), "seeds": len(seeds),
        "runs_per_hour": round(len(seeds) / wall * 3600), "seeds_per_hour": round(len(seeds) / wall * 3600),
        "simulated_seconds_covered": 0,
        "faults_configured": {"trace": total.get("faults_fired", 0)},
        "faults_fired": {"trace": total.get("faults_fired", 0), "incompatible_edit_or_other_failed_request": total.get("failed_requests", 0)},
        "probes": {
            "requests_at_master_locations": total.get("at_master", 0),
            "requests_at_other_locations": total.get("interior", 0),
            "instances_where_a_rule_swap_fired": total.get("swaps_fired", 0),
            "replace_source_layers": total.get("replace", 0),
            "caller_mutations_of_returned_instances": total.get("mutations", 0),
            "repeated_requests": total.get("repeat_requests", 0),
            "requests_served_from_a_warm_variator_cache": total.get("warm_cache_hits", 0),
            "individual_model_claims_checked": total.get("model_claims", 0),
        },
        "distinct_interleavings": len(total.get("interleavings", ())),
        "interleaving_measure": "distinct digests of (materialisation, rounding, [(request kind, edit kind, fault?, outcome class)])",
        "components": COMPONENTS, "exhaustive": False,
    }
    driver.write_evidence(PROP, tier, seed, LEVEL, cov, wall, confirmed, ASSUMPTIONS)
    print("C19 %s: %d histories, %d requests (%d at masters, %d elsewhere, %d with swaps), %d model claims, %d distinct, %.0fs"
          % (tier, len(seeds), total.get("requests", 0), total.get("at_master", 0), total.get("interior", 0),
             total.get("swaps_fired", 0), total.get("model_claims", 0), cov["distinct_nontrivial"], wall))
    if confirmed:
        return 1
    if harness_problem:
        return 2
    return 0
