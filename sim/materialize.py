"""Materialise a family spec (or a vendored corpus fixture) into live source
objects: ufoLib2 / defcon fonts built in memory, or read (lazily / eagerly) from
a SimFS disk image or from a real scratch directory; plus the DesignSpaceDocument
that points at them.  Everything here is a pure function of its arguments."""
from __future__ import annotations

import hashlib
import io
import os
import shutil
import tempfile

import fs.copy
import fs.memoryfs
import fs.osfs
from fontTools.designspaceLib import (
    AxisDescriptor,
    DesignSpaceDocument,
    InstanceDescriptor,
    RangeAxisSubsetDescriptor,
    RuleDescriptor,
    SourceDescriptor,
    VariableFontDescriptor,
)
from fontTools.ufoLib import UFOReader, UFOWriter

from . import CORPUS_DIR
from .seams import SimFS
from .snapshot import snap_designspace, snap_font

MODES = ("u2mem", "u2lazy", "u2eager", "dcmem", "dcdisk", "u2disk")


def _hkey(order_key, name):
    return hashlib.sha256((order_key + "\0" + str(name)).encode()).digest()


def _ordered(items, order_key, key=lambda x: x):
    items = list(items)
    if order_key is None:
        return items
    return sorted(items, key=lambda it: _hkey(order_key, key(it)))


def _draw_glyph(glyph, gspec):
    glyph.width = gspec["width"]
    glyph.height = gspec.get("height", 0)
    glyph.unicodes = list(gspec.get("unicodes", []))
    pen = glyph.getPointPen()
    for contour in gspec.get("contours", []):
        pen.beginPath()
        for x, y, t, s in contour:
            pen.addPoint((x, y), segmentType=t, smooth=bool(s))
        pen.endPath()
    for comp in gspec.get("components", []):
        if len(comp) > 2 and comp[2]:
            pen.addComponent(comp[0], tuple(comp[1]), identifier=comp[2])
        else:
            pen.addComponent(comp[0], tuple(comp[1]))
    for a in gspec.get("anchors", []):
        d = {"name": a[0], "x": a[1], "y": a[2]}
        if len(a) > 3 and a[3]:
            d["identifier"] = a[3]
        glyph.appendAnchor(d)
    for k, v in gspec.get("lib", {}).items():
        glyph.lib[k] = _copy(v)


def _copy(v):
    if isinstance(v, dict):
        return {k: _copy(x) for k, x in v.items()}
    if isinstance(v, list):
        return [_copy(x) for x in v]
    return v


def build_font(mspec, module, order_key=None):
    """Build one master in memory with ``module`` (ufoLib2 or defcon)."""
    font = module.Font()
    for k, v in mspec["info"].items():
        setattr(font.info, k, _copy(v))
    names = _ordered(mspec.get("glyph_order") or list(mspec["glyphs"]), order_key)
    for name in names:
        g = font.newGlyph(name)
        _draw_glyph(g, mspec["glyphs"][name])
    for lname in _ordered(mspec.get("layers", {}), order_key):
        layer = font.newLayer(lname)
        for gname in _ordered(mspec["layers"][lname], order_key):
            g = layer.newGlyph(gname)
            _draw_glyph(g, mspec["layers"][lname][gname])
    for l, r, v in _ordered(mspec.get("kerning", []), order_key, key=lambda p: p[0] + "|" + p[1]):
        font.kerning[(l, r)] = v
    for gname in _ordered(mspec.get("groups", {}), order_key):
        font.groups[gname] = list(mspec["groups"][gname])
    for k in _ordered(mspec.get("lib", {}), order_key):
        font.lib[k] = _copy(mspec["lib"][k])
    if mspec.get("features"):
        font.features.text = mspec["features"]
    data = mspec.get("data", {})
    order = [p for p in mspec.get("data_order", []) if p in data]
    order += sorted(p for p in data if p not in order)
    for path in order:
        text = data[path]
        font.data[path] = text.encode("utf-8") if isinstance(text, str) else bytes(text)
    if "public.glyphOrder" not in mspec.get("lib", {}) and "public.glyphOrder" in font.lib:
        # defcon maintains public.glyphOrder automatically while glyphs are added;
        # that would make the defcon world *content* differ from the ufoLib2 one
        del font.lib["public.glyphOrder"]
    return font


def build_designspace(fam, fonts, names=True, filenames=None):
    doc = DesignSpaceDocument()
    for a in fam["axes"]:
        if "discrete" in a:
            from fontTools.designspaceLib import DiscreteAxisDescriptor

            ax = DiscreteAxisDescriptor()
            ax.name, ax.tag = a["name"], a["tag"]
            ax.values, ax.default = list(a["discrete"]), a["default"]
            doc.addAxis(ax)
            continue
        ax = AxisDescriptor()
        ax.name, ax.tag = a["name"], a["tag"]
        ax.minimum, ax.default, ax.maximum = a["minimum"], a["default"], a["maximum"]
        if "map" in a:
            ax.map = [tuple(p) for p in a["map"]]
        doc.addAxis(ax)
    pending = []
    for i, m in enumerate(fam["masters"]):
        s = SourceDescriptor()
        s.font = fonts[i]
        s.location = dict(m["location"])
        s.familyName = m["info"].get("familyName")
        s.styleName = m["info"].get("styleName")
        if names is True or (isinstance(names, (list, tuple)) and names[i % len(names)]):
            s.name = m["name"]
        if filenames:
            s.filename = filenames[i]
        if fam.get("explicit_default_layer") and i >= 1 and i % 2 == 1:
            s.layerName = fonts[i].layers.defaultLayer.name
        pending.append(s)
    for sp in fam.get("sparse", []):
        s = SourceDescriptor()
        s.font = fonts[sp["master"]]
        s.layerName = sp["layer"]
        s.location = dict(sp["location"])
        if names is True or (isinstance(names, (list, tuple)) and names[-1]):
            s.name = "sparse_%s" % sp["layer"]
        if filenames:
            s.filename = filenames[sp["master"]]
        pending.append(s)
    # the order of the <source> elements is arbitrary in a designspace: the default
    # master need not come first
    if fam.get("partial_source_locations"):
        # a <source> may leave out the axes that sit at their default
        defaults = {ax.name: ax.map_forward(ax.default) for ax in doc.axes}
        for k, s in enumerate(pending):
            if k % 2 == 0 or fam["partial_source_locations"] == "all":
                s.location = {n: v for n, v in s.location.items() if v != defaults.get(n)}
    order = fam.get("source_order")
    if order and sorted(order) == list(range(len(pending))):
        pending = [pending[k] for k in order]
    for s in pending:
        doc.addSource(s)
    for r in fam.get("rules", []):
        rd = RuleDescriptor()
        rd.name = r["name"]
        rd.conditionSets = [[dict(c) for c in cs] for cs in r["conditionSets"]]
        rd.subs = [tuple(s) for s in r["subs"]]
        doc.addRule(rd)
    for inst in fam.get("instances", []):
        d = InstanceDescriptor()
        d.familyName = inst.get("familyName")
        d.styleName = inst.get("styleName")
        loc = {}
        for ax in doc.axes:
            if ax.name in inst["user"]:
                loc[ax.name] = ax.map_forward(inst["user"][ax.name])
        d.designLocation = loc
        doc.addInstance(d)
    for vf in fam.get("variable_fonts", []):
        d = VariableFontDescriptor(name=vf["name"])
        d.axisSubsets = [RangeAxisSubsetDescriptor(name=a) for a in vf["axes"]]
        for an, av in (vf.get("values") or {}).items():
            from fontTools.designspaceLib import ValueAxisSubsetDescriptor

            d.axisSubsets.append(ValueAxisSubsetDescriptor(name=an, userValue=av))
        d.lib = _copy(vf.get("lib", {}))
        doc.addVariableFont(d)
    for k, v in fam.get("dslib", {}).items():
        doc.lib[k] = _copy(v)
    return doc


# ----------------------------------------------------------------- disk image

_IMAGE_CACHE = {}


def family_image(fam, cache_key=None):
    """MemoryFS with /master_k.ufo for every master (written by ufoLib2)."""
    import ufoLib2

    if cache_key is not None and cache_key in _IMAGE_CACHE:
        return _IMAGE_CACHE[cache_key]
    mem = fs.memoryfs.MemoryFS()
    for m in fam["masters"]:
        font = build_font(m, ufoLib2)
        sub = mem.makedir(m["name"] + ".ufo")
        font.write(UFOWriter(sub))
    if cache_key is not None:
        if len(_IMAGE_CACHE) > 64:
            _IMAGE_CACHE.clear()
        _IMAGE_CACHE[cache_key] = mem
    return mem


def corpus_image(entries):
    """MemoryFS holding copies of the named corpus entries (files or dirs)."""
    key = ("corpus",) + tuple(entries)
    if key in _IMAGE_CACHE:
        return _IMAGE_CACHE[key]
    mem = fs.memoryfs.MemoryFS()
    src = fs.osfs.OSFS(CORPUS_DIR)
    for e in entries:
        if src.isdir(e):
            fs.copy.copy_dir(src, e, mem, e)
        else:
            d = os.path.dirname(e)
            if d:
                mem.makedirs(d, recreate=True)
            fs.copy.copy_file(src, e, mem, e)
    _IMAGE_CACHE[key] = mem
    return mem


def _clone_into_simfs(mem, perm_key):
    sim = SimFS(perm_key=perm_key)
    fs.copy.copy_fs(mem, sim.inner)
    sim.sealed = True
    return sim


# ----------------------------------------------------------------- world


class World:
    """Live sources + their pristine expected snapshots."""

    def __init__(self):
        self.fonts = []          # live fonts handed to ufo2ft
        self.font_names = []
        self.twins = []          # expected snapshots (never handed to ufo2ft)
        self.ds = None           # live DesignSpaceDocument (or None)
        self.ds_twin = None
        self.simfs = None
        self.tmpdir = None
        self.mode = None
        self.image_digest = None
        self.desc = None
        self.twins_orig = []
        self.include_dir = None

    def close(self):
        for f in self.fonts:
            try:
                if hasattr(f, "close"):
                    f.close()
            except Exception:
                pass
        if self.tmpdir:
            shutil.rmtree(self.tmpdir, ignore_errors=True)
            self.tmpdir = None

    # oracle helpers -----------------------------------------------------
    def source_diffs(self, limit=40):
        """Paths where the live sources differ from their pristine twins."""
        out = []
        from .snapshot import diff

        for i, (f, t) in enumerate(zip(self.fonts, self.twins)):
            for p in diff(t, snap_font(f), "font%d" % i, limit=limit):
                out.append(p)
        if self.ds is not None:
            cur = snap_designspace(self.ds)
            exp = self.ds_twin
            for p in diff(exp, cur, "designspace", limit=limit):
                out.append(p)
        if self.simfs is not None:
            if self.simfs.write_attempts:
                out.append("disk (write attempts: %r)" % (self.simfs.write_attempts[:3],))
            if self.simfs.image_digest() != self.image_digest:
                out.append("disk (image changed)")
        return out

    def rebase(self):
        """Accept the current state as the new expected state (used after a
        KNOWN finding has been reported so that later steps are still checked)."""
        self.twins = [snap_font(f, peek=False) for f in self.fonts]
        if self.ds is not None:
            self.ds_twin = snap_designspace(self.ds)


def _spec_is_corpus(spec):
    return "corpus" in spec


def world_glyph_names(spec):
    if _spec_is_corpus(spec):
        return None
    return list(spec["masters"][0]["glyphs"])


def materialize(spec, mode="u2mem", order_key=None, perm_key=None, ds_names=True,
                want_ds=None, scratch_root=None, cache_key=None):
    """Create a World.  ``spec`` is a family spec or
    {"corpus": [ufo dirs...], "ds": "x.designspace"|None}."""
    import ufoLib2

    assert mode in MODES, mode
    w = World()
    w.mode = mode
    corpus = _spec_is_corpus(spec)
    if corpus:
        entries = list(spec["corpus"]) + ([spec["ds"]] if spec.get("ds") else []) + list(spec.get("extra", []))
        mem = corpus_image(entries)
        ufo_paths = list(spec["corpus"])
        if mode == "dcmem":
            mode = "dcdisk"
    else:
        mem = None
        ufo_paths = [m["name"] + ".ufo" for m in spec["masters"]]
        if mode not in ("u2mem", "dcmem"):
            mem = family_image(spec, cache_key=cache_key)
    w.font_names = ufo_paths

    def eager_from(mem_fs, p):
        return ufoLib2.Font.read(UFOReader(mem_fs.opendir(p)), lazy=False)

    if mode == "u2mem":
        if corpus:
            w.fonts = [eager_from(mem, p) for p in ufo_paths]
            w.twins = [snap_font(eager_from(mem, p)) for p in ufo_paths]
        else:
            w.fonts = [build_font(m, ufoLib2, order_key) for m in spec["masters"]]
            w.twins = [snap_font(build_font(m, ufoLib2, order_key)) for m in spec["masters"]]
    elif mode == "dcmem":
        import defcon

        w.fonts = [build_font(m, defcon, order_key) for m in spec["masters"]]
        w.twins = [snap_font(build_font(m, defcon, order_key)) for m in spec["masters"]]
    elif mode in ("u2lazy", "u2eager"):
        sim = _clone_into_simfs(mem, perm_key)
        w.simfs = sim
        w.image_digest = sim.image_digest()
        lazy = mode == "u2lazy"
        w.fonts = [ufoLib2.Font.read(UFOReader(sim.opendir(p)), lazy=lazy) for p in ufo_paths]
        w.twins = [snap_font(eager_from(mem, p)) for p in ufo_paths]
        sim.reset_counters()
    else:  # real scratch directory
        w.tmpdir = tempfile.mkdtemp(prefix="ufo2ft-sim-", dir=scratch_root)
        fs.copy.copy_fs(mem, fs.osfs.OSFS(w.tmpdir))
        if mode == "dcdisk":
            import defcon

            w.fonts = [defcon.Font(os.path.join(w.tmpdir, p)) for p in ufo_paths]
            w.twins = [snap_font(defcon.Font(os.path.join(w.tmpdir, p))) for p in ufo_paths]
        else:
            w.fonts = [ufoLib2.Font.open(os.path.join(w.tmpdir, p)) for p in ufo_paths]
            w.twins = [snap_font(eager_from(mem, p)) for p in ufo_paths]

    if want_ds is None:
        want_ds = corpus and bool(spec.get("ds")) or (not corpus and len(spec["masters"]) >= 1 and bool(spec["axes"]))
    if want_ds:
        if corpus:
            if not spec.get("ds"):
                raise ValueError("corpus world has no designspace")
            text = mem.readtext(spec["ds"])
            doc = DesignSpaceDocument.fromstring(text)
            base = os.path.dirname(spec["ds"])
            by_path = {os.path.normpath(p): f for p, f in zip(ufo_paths, w.fonts)}
            for s in doc.sources:
                key = os.path.normpath(os.path.join(base, s.filename))
                s.font = by_path[key]
                if ds_names is not True and not (isinstance(ds_names, (list, tuple)) and ds_names[0]):
                    s.name = None
            w.ds = doc
        else:
            w.ds = build_designspace(spec, w.fonts, names=ds_names)
        w.ds_twin = snap_designspace(w.ds)
    w.twins_orig = list(w.twins)
    # include() files of the feature code live in a real directory (feaLib opens them
    # with the built-in open); in the path modes that is the UFOs' parent directory
    inc = {} if corpus else (spec.get("include_files") or {})
    w.include_dir = None
    if inc:
        if w.tmpdir is None:
            w.tmpdir = tempfile.mkdtemp(prefix="ufo2ft-sim-", dir=scratch_root)
        for name, text in inc.items():
            with open(os.path.join(w.tmpdir, name), "w", encoding="utf-8") as f:
                f.write(text)
        w.include_dir = w.tmpdir
    return w
