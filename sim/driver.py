"""Common driver: seeds -> pool -> aggregate -> minimise -> replay -> evidence.

Exit status contract: 0 = property held on everything explored (KNOWN-FINDING
lines may be printed), 1 = an unlisted violation was reproduced from its replay
file (a ``VIOLATION property=<id> replay=<path>`` line is printed), 2 = harness
error (timeout, dead worker, failure that cannot be reproduced from a file)."""
from __future__ import annotations

import json
import os
import subprocess
import sys
import time

from . import VERIF_DIR, findings
from .pool import HarnessError, run_pool

REPLAY_DIR = os.path.join(VERIF_DIR, "replays")
EVIDENCE_DIR = os.path.join(VERIF_DIR, "evidence")


def ensure_hashseed(default="0"):
    """Re-exec with a fixed PYTHONHASHSEED so that one VERIF_SEED is one
    execution, including set iteration order inside the system under test."""
    if os.environ.get("PYTHONHASHSEED") is None or os.environ.get("VERIF_REEXEC") != "1":
        env = dict(os.environ)
        env.setdefault("PYTHONHASHSEED", default)
        if os.environ.get("PYTHONHASHSEED") is None:
            env["PYTHONHASHSEED"] = default
        env["VERIF_REEXEC"] = "1"
        os.execve(sys.executable, [sys.executable] + sys.argv, env)


def jsonable(o):
    if isinstance(o, dict):
        return {str(k): jsonable(v) for k, v in o.items()}
    if isinstance(o, (list, tuple, set, frozenset)):
        return [jsonable(v) for v in (sorted(o, key=repr) if isinstance(o, (set, frozenset)) else o)]
    if isinstance(o, (str, int, float, bool)) or o is None:
        return o
    return repr(o)


def write_replay(prop, tag, payload):
    os.makedirs(REPLAY_DIR, exist_ok=True)
    path = os.path.join(REPLAY_DIR, "%s-%s.json" % (prop, tag))
    with open(path, "w") as f:
        # key order is kept: the world spec's dicts (layers, groups, lib, ...) are
        # materialised in their own order, which is part of the execution
        json.dump(jsonable(payload), f, indent=1)
    return path


def replay_in_fresh_process(prop, path, timeout=600):
    """Re-execute a replay file in a fresh interpreter; returns (rc, stdout)."""
    env = dict(os.environ)
    env.pop("VERIF_REEXEC", None)
    try:
        with open(path) as f:
            hs = json.load(f).get("env", {}).get("PYTHONHASHSEED")
    except Exception:
        hs = None
    env["PYTHONHASHSEED"] = str(hs if hs is not None else os.environ.get("PYTHONHASHSEED", "0"))
    p = subprocess.run([sys.executable, os.path.join(VERIF_DIR, "check"), prop, "--replay", path, "--quiet"],
                       env=env, capture_output=True, text=True, timeout=timeout)
    return p.returncode, p.stdout + p.stderr


def merge_stats(total, st):
    for k, v in st.items():
        if isinstance(v, dict):
            d = total.setdefault(k, {})
            for kk, vv in v.items():
                d[kk] = d.get(kk, 0) + vv
        elif isinstance(v, (list, set, tuple)) and k in ("sites", "distinct", "interleavings", "states"):
            s = total.setdefault(k, set())
            for x in v:
                s.add(tuple(x) if isinstance(x, list) else x)
        elif isinstance(v, (int, float)):
            total[k] = total.get(k, 0) + v


def write_evidence(prop, tier, seed, level, coverage, wall_s, violations, assumptions):
    os.makedirs(EVIDENCE_DIR, exist_ok=True)
    ev = {
        "property_id": prop, "tier": tier, "seed": int(seed), "level": level,
        "coverage": jsonable(coverage), "assumptions": assumptions,
        "wall_s": round(wall_s, 2), "violations": int(violations),
    }
    path = os.path.join(EVIDENCE_DIR, "%s.json" % prop)
    tmp = path + ".tmp"
    with open(tmp, "w") as f:
        json.dump(ev, f, indent=1, sort_keys=True)
    os.replace(tmp, path)
    return path


def print_known(prop, known_counts):
    """One KNOWN-FINDING line per listed open finding that was observed."""
    by_id = {f["id"]: f for f in findings.open_findings(prop)}
    for fid in sorted(known_counts):
        f = by_id.get(fid)
        if f:
            print("KNOWN-FINDING: property=%s %s [%s; observed %d times this run]"
                  % (prop, f["what"], fid, known_counts[fid]))


def now():
    return time.monotonic()


def report_violations(prop, viols, seed, tier, pred_factory, shrink_world=True):
    """Group violations by signature, minimise one per group, write the replay
    file and confirm it in a fresh interpreter.  Returns (confirmed, harness_problem)."""
    from .minimize import minimise

    groups = {}
    for v in viols:
        key = tuple(v["violation"]["sig"][:4])
        groups.setdefault(key, []).append(v)
    confirmed = 0
    harness_problem = False
    for gi, (key, vs) in enumerate(sorted(groups.items())[:4]):
        v = min(vs, key=lambda x: (len(x["scenario"]["steps"]), len(json.dumps(x["scenario"]))))
        scn = v["scenario"]
        fails = pred_factory(v["violation"]["sig"])
        try:
            small, runs = minimise(scn, fails, fail_step=v["violation"]["step"],
                                   max_runs=150 if tier == "quick" else 300,
                                   max_s=60 if tier == "quick" else 150)
        except Exception as e:  # noqa: BLE001
            small, runs = scn, 0
            print("note: minimiser failed (%r); keeping the original scenario" % (e,))
        tag = "%s-%d" % (scn.get("seed", seed), gi)
        payload = {"property": prop, "kind": "scenario", "scenario": small,
                   "violation": v["violation"], "found_in_pass": v.get("pass"),
                   "minimiser_runs": runs, "env": {"PYTHONHASHSEED": os.environ.get("PYTHONHASHSEED", "0")},
                   "how_to_replay": "./check %s --replay <this file>" % prop}
        path = write_replay(prop, tag, payload)
        rc, out = replay_in_fresh_process(prop, path)
        if rc != 1:
            payload["scenario"] = scn
            payload["minimiser_runs"] = 0
            path = write_replay(prop, tag + "-orig", payload)
            rc, out = replay_in_fresh_process(prop, path)
        if rc == 1:
            print("VIOLATION property=%s replay=%s" % (prop, path))
            print("  %s" % "; ".join(str(x) for x in v["violation"]["paths"][:4])[:600])
            confirmed += 1
        else:
            print("HARNESS-ERROR: failure for signature %r found in a worker does not reproduce from %s" % (key, path))
            harness_problem = True
    return confirmed, harness_problem
