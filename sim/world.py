"""World generator: a *family spec* (plain JSON) describing 1-3 point-compatible
masters, optional sparse layer master, axes, rules, instances, kerning, anchors,
feature text and lib keys.  Generation is a pure function of a random.Random.

Swarm style: each world enables a random subset of ``FEATURES``; callers can
force or forbid individual features (profiles)."""
from __future__ import annotations

import math
import random

UFO2FT = "com.github.googlei18n.ufo2ft."

FEATURES = [
    "marks", "mkmk", "ligature", "cursive", "composites", "nested", "transformed",
    "mirrored", "mixed", "alternates", "kerning", "groups", "multiscript", "rtl",
    "indic", "notdef", "glyphorder", "skipexport", "categories", "psnames",
    "libfilters", "libwriters", "uvs", "math", "color", "feature_text", "gdef_block",
    "kern_block", "fractional", "quadratic", "cubic", "ttx_data", "vertical",
    "prodnames_off", "meta", "instructions_off", "dottedcircle", "ds_skipexport",
    "openinfo", "background_layer", "glyph_lib", "empty_glyph", "underline_pos", "ds5_vfs",
    "multi_anchor", "tt_instructions", "colrv1", "contextual_anchor", "fea_include",
]

# name, unicodes, kind
BASES = [
    ("A", [0x41]), ("V", [0x56]), ("T", [0x54]), ("a", [0x61]), ("o", [0x6F]),
    ("n", [0x6E]), ("one", [0x31]), ("period", [0x2E]), ("hyphen", [0x2D]),
]
MULTI = [("alpha", [0x3B1]), ("uni0430", [0x430]), ("Sigma", [0x3A3]), ("uni0414", [0x414]),
         ("u1F600", [0x1F600]), ("u1D400", [0x1D400])]
RTL = [("beh-ar", [0x628]), ("alef-ar", [0x627]), ("alef-hb", [0x5D0]), ("reh-ar", [0x631])]
INDIC = [("ka-deva", [0x915]), ("ga-deva", [0x917])]
MARKS_TOP = [("acutecomb", [0x301]), ("gravecomb", [0x300]), ("fatha-ar", [0x64E]),
             ("anusvara-deva", [0x902])]
MARKS_BOTTOM = [("dotbelowcomb", [0x323]), ("kasra-ar", [0x650]), ("nukta-deva", [0x93C])]


def _q(rng, v, frac):
    """Round to integer, or with probability to halves / quarters."""
    if frac and rng.random() < 0.3:
        return round(v * 4) / 4
    return int(round(v))


def _contour(rng, cx, cy, r, spec):
    """One closed contour around (cx, cy): list of [x, y, type, smooth]."""
    n = rng.randint(3, 5)
    frac = spec["frac"]
    phase = rng.random() * 2 * math.pi
    verts = []
    for i in range(n):
        ang = phase + 2 * math.pi * i / n
        rr = r * (0.7 + 0.6 * rng.random())
        verts.append((cx + rr * math.cos(ang), cy + rr * math.sin(ang)))
    kinds = []
    for i in range(n):
        x = rng.random()
        if spec["cubic"] and x < 0.4:
            kinds.append("curve")
        elif spec["quad"] and x < 0.7:
            kinds.append("qcurve")
        else:
            kinds.append("line")
    pts = []
    # points list: v0, [offs seg1], v1, ..., [offs seg0]
    def offs(p0, p1, kind):
        (x0, y0), (x1, y1) = p0, p1
        dx, dy = x1 - x0, y1 - y0
        nx, ny = -dy * 0.2, dx * 0.2
        if kind == "curve":
            return [[_q(rng, x0 + dx / 3 + nx, frac), _q(rng, y0 + dy / 3 + ny, frac), None, False],
                    [_q(rng, x0 + 2 * dx / 3 + nx, frac), _q(rng, y0 + 2 * dy / 3 + ny, frac), None, False]]
        if kind == "qcurve":
            k = rng.choice([1, 1, 2])
            if k == 1:
                return [[_q(rng, x0 + dx / 2 + nx, frac), _q(rng, y0 + dy / 2 + ny, frac), None, False]]
            return [[_q(rng, x0 + dx / 3 + nx, frac), _q(rng, y0 + dy / 3 + ny, frac), None, False],
                    [_q(rng, x0 + 2 * dx / 3 + nx, frac), _q(rng, y0 + 2 * dy / 3 + ny, frac), None, False]]
        return []
    qverts = [(_q(rng, x, frac), _q(rng, y, frac)) for x, y in verts]
    for i in range(n):
        if i > 0:
            pts.extend(offs(qverts[i - 1], qverts[i], kinds[i]))
        pts.append([qverts[i][0], qverts[i][1], kinds[i], rng.random() < 0.2 and kinds[i] != "line"])
    pts.extend(offs(qverts[n - 1], qverts[0], kinds[0]))
    return pts


def _simple_glyph(rng, spec, width=None, ncontours=None):
    w = width if width is not None else rng.choice([0, 200, 300, 450, 500, 600, 720])
    if spec["frac"] and rng.random() < 0.15:
        w += 0.5
    nc = ncontours if ncontours is not None else rng.choice([1, 1, 1, 2, 2, 3])
    contours = []
    for i in range(nc):
        cx = (w or 300) * (0.3 + 0.4 * rng.random())
        cy = rng.choice([100, 250, 350, 500])
        r = rng.choice([60, 100, 150, 220])
        contours.append(_contour(rng, cx, cy, r, spec))
    return {"width": w, "height": 0, "unicodes": [], "contours": contours, "components": [],
            "anchors": [], "lib": {}}


def _empty_glyph(width):
    return {"width": width, "height": 0, "unicodes": [], "contours": [], "components": [],
            "anchors": [], "lib": {}}


def _transform(rng, kind, frac):
    dx = _q(rng, rng.choice([0, 0, 30, -40, 120, 250]), frac)
    dy = _q(rng, rng.choice([0, 0, 0, 50, -60, 200]), frac)
    if kind == "offset":
        return [1, 0, 0, 1, dx, dy]
    if kind == "scale":
        s = rng.choice([0.5, 0.75, 1.25, 2])
        return [s, 0, 0, rng.choice([s, s, 1]), dx, dy]
    if kind == "mirror":
        return rng.choice([[-1, 0, 0, 1, dx + 400, dy], [1, 0, 0, -1, dx, dy + 500],
                           [-1, 0, 0, -1, dx + 400, dy + 500]])
    if kind == "rot":
        return [0, 1, -1, 0, dx + 300, dy]
    if kind == "skew":
        return [1, 0, 0.25, 1, dx, dy]
    raise AssertionError(kind)


def gen_family(rng, force=(), forbid=(), n_masters=None, max_glyphs=14, p_sparse=0.35):
    """Return a family spec.  ``force``/``forbid``: feature names."""
    p_enable = rng.choice([0.25, 0.4, 0.55, 0.7])
    on = {f for f in FEATURES if rng.random() < p_enable}
    on |= set(force)
    on -= set(forbid)
    if "nested" in on or "transformed" in on or "mirrored" in on or "mixed" in on:
        on.add("composites")
    if "mkmk" in on:
        on.add("marks")
    if "dottedcircle" in on:
        # DottedCircleFilter.ensure_base parses the feature file without any include
        # directory (filters never see feaIncludeDir), so a memory-built font with
        # include() cannot use that filter at all - not a combination worth generating
        on.discard("fea_include")
    if not ({"cubic", "quadratic"} & on):
        on.add(rng.choice(["cubic", "quadratic", "cubic"]))
    spec = {"frac": "fractional" in on, "cubic": "cubic" in on, "quad": "quadratic" in on}
    upm = rng.choice([1000, 1000, 2048, 500])
    if n_masters is None:
        n_masters = rng.choice([1, 2, 2, 3])

    # ------------------------------------------------------------- glyph roster
    roster = []  # (name, unicodes, role)
    nb = rng.randint(2, 5)
    pool = list(BASES)
    if "multiscript" in on:
        pool += MULTI
    if "rtl" in on:
        pool += RTL
    if "indic" in on:
        pool += INDIC
    rng.shuffle(pool)
    # always keep at least one Latin capital for alternates/composites
    chosen = pool[:nb]
    if not any(n in ("A", "a", "o") for n, _ in chosen):
        chosen.append(("A", [0x41]))
    if "rtl" in on and not any(n.endswith("-ar") or n.endswith("-hb") for n, _ in chosen):
        chosen.append(RTL[0])
    if "indic" in on and not any(n.endswith("-deva") for n, _ in chosen):
        chosen.append(INDIC[0])
    for n, u in chosen:
        roster.append((n, list(u), "base"))
    if "empty_glyph" in on or rng.random() < 0.5:
        roster.append(("space", [0x20], "empty"))
    marks = []
    if "marks" in on:
        cand = [m for m in MARKS_TOP + MARKS_BOTTOM]
        rng.shuffle(cand)
        for n, u in cand[: rng.randint(1, 3)]:
            role = "mark_top" if (n, u) in MARKS_TOP else "mark_bottom"
            roster.append((n, list(u), role))
            marks.append((n, role))
    base_names = [n for n, _, r in roster if r == "base"]
    if "alternates" in on:
        for b in base_names[: rng.randint(1, 2)]:
            roster.append((b + ".alt", [], "alt"))
    if "ligature" in on and len(base_names) >= 2:
        roster.append((base_names[0] + "_" + base_names[1], [], "liga"))
    if "cursive" in on:
        for b in [n for n in base_names if n.endswith("-ar")][:2] or base_names[:1]:
            roster.append((b + ".init", [], "curs"))
    comps = []
    if "composites" in on:
        k = rng.randint(1, 3)
        for i in range(k):
            b = rng.choice(base_names)
            if marks and rng.random() < 0.7:
                m = rng.choice(marks)[0]
                name = "%s%s" % (b, m.replace("comb", "").replace("-", ""))
            else:
                m = None
                name = "%s.comp%d" % (b, i)
            if any(name == r[0] for r in roster):
                continue
            uni = [0xC0 + len(comps)] if rng.random() < 0.6 else []
            roster.append((name, uni, "composite"))
            comps.append((name, b, m))
    if "ligature" in on and "composites" in on and len(base_names) >= 2 and rng.random() < 0.5:
        # a composite built from a ligature and the two bases themselves: several
        # components contribute anchors called 'top' *and* there are 'top_1'/'top_2'
        roster.append((base_names[0] + "_" + base_names[1] + ".stack", [], "ligacomp"))
    if "marks" in on and len(marks) >= 2 and rng.random() < 0.4:
        # a mark made of two marks (a "ligature mark")
        roster.append((marks[0][0] + "_" + marks[1][0], [], "markliga"))
    if "mixed" in on:
        roster.append((base_names[0] + ".mixed", [], "mixed"))
    if "nested" in on and comps:
        for i, (cname, b, m) in enumerate(comps[: rng.randint(1, 2)]):
            roster.append((cname + ".nest", [], "nested:" + cname))
        if "mixed" in on and rng.random() < 0.5:
            # a composite of a *mixed* glyph (contours + components)
            roster.append((base_names[0] + ".mixed.nest", [], "nested:" + base_names[0] + ".mixed"))
    if "notdef" in on:
        roster.append((".notdef", [], "notdef"))
    if "dottedcircle" in on and rng.random() < 0.6:
        roster.append(("uni25CC", [0x25CC], "base"))
    # cap the number of glyphs, keeping referential integrity (drop from the end)
    while len(roster) > max_glyphs:
        roster.pop()
    names = [r[0] for r in roster]
    nameset = set(names)

    # ------------------------------------------------------------- master 0 glyphs
    glyphs = {}
    for name, unis, role in roster:
        if role == "empty":
            g = _empty_glyph(rng.choice([200, 250, 300]))
        elif role == "notdef":
            g = _simple_glyph(rng, spec, width=500, ncontours=rng.choice([1, 2]))
        elif role.startswith("mark"):
            g = _simple_glyph(rng, spec, width=rng.choice([0, 0, 200]), ncontours=1)
        elif role in ("composite", "ligacomp"):
            g = _empty_glyph(rng.choice([500, 600]))
        elif role == "markliga":
            g = _empty_glyph(0)
        elif role.startswith("nested:"):
            g = _empty_glyph(rng.choice([500, 600]))
        elif role == "mixed":
            g = _simple_glyph(rng, spec, ncontours=1)
        else:
            g = _simple_glyph(rng, spec)
        g["unicodes"] = list(unis)
        glyphs[name] = g
    # second code point on some glyph (several per glyph)
    if rng.random() < 0.3 and "A" in glyphs:
        if rng.random() < 0.5:
            glyphs["A"]["unicodes"].append(0x391)  # Greek Alpha look-alike
        else:
            # the primary code point is not the smallest one (production names,
            # cmap and OS/2 ranges are derived from the *first* entry)
            glyphs["A"]["unicodes"].insert(0, 0x391)
    if rng.random() < 0.2:
        cands = [n for n in glyphs if glyphs[n]["unicodes"] and n != "A" and glyphs[n]["unicodes"][0] > 0x40]
        if cands:
            n = cands[rng.randrange(len(cands))]
            u = glyphs[n]["unicodes"][0]
            used = {c for g_ in glyphs.values() for c in g_["unicodes"]}
            lo = u - 0x20 if (u - 0x20) not in used else None
            glyphs[n]["unicodes"] = [u, lo] if (lo and rng.random() < 0.5) else [0xE100 + (u & 0xFF), u]
    # components
    tkinds = ["offset", "offset", "offset"]
    if "transformed" in on:
        tkinds += ["scale", "rot", "skew"]
    if "mirrored" in on:
        tkinds += ["mirror"]
    for cname, b, m in comps:
        if cname not in glyphs:
            continue
        g = glyphs[cname]
        g["components"].append([b, _transform(rng, rng.choice(tkinds), spec["frac"])])
        if m and m in nameset:
            g["components"].append([m, _transform(rng, "offset", spec["frac"])])
        g["width"] = glyphs[b]["width"]
    for name, unis, role in roster:
        if role.startswith("nested:"):
            ref = role.split(":", 1)[1]
            if ref in glyphs:
                glyphs[name]["components"].append([ref, _transform(rng, rng.choice(tkinds), spec["frac"])])
                if marks and rng.random() < 0.5:
                    glyphs[name]["components"].append([marks[-1][0], _transform(rng, "offset", spec["frac"])])
        if role == "ligacomp":
            lig = base_names[0] + "_" + base_names[1]
            if lig in glyphs:
                glyphs[name]["components"] = [[lig, [1, 0, 0, 1, 0, 0]],
                                              [base_names[0], _transform(rng, "offset", spec["frac"])],
                                              [base_names[1], _transform(rng, "offset", spec["frac"])]]
        if role == "markliga":
            glyphs[name]["components"] = [[marks[0][0], [1, 0, 0, 1, 0, 0]],
                                          [marks[1][0], _transform(rng, "offset", spec["frac"])]]
        if role == "mixed":
            mb = comps[0][1] if comps and rng.random() < 0.6 else base_names[-1]
            glyphs[name]["components"].append([mb, _transform(rng, rng.choice(tkinds), spec["frac"])])
    # anchors
    for name, unis, role in roster:
        g = glyphs[name]
        w = g["width"] or 300
        if role in ("base", "alt", "curs") and "marks" in on and rng.random() < 0.85:
            g["anchors"].append(["top", _q(rng, w / 2, spec["frac"]), rng.choice([500, 700])])
            if rng.random() < 0.6:
                g["anchors"].append(["bottom", _q(rng, w / 2, spec["frac"]), rng.choice([0, -20])])
        if role == "mark_top":
            g["anchors"].append(["_top", _q(rng, w / 2 or 100, spec["frac"]), 480])
            if "mkmk" in on:
                g["anchors"].append(["top", _q(rng, w / 2 or 100, spec["frac"]), 640])
        if role == "mark_bottom":
            g["anchors"].append(["_bottom", _q(rng, w / 2 or 100, spec["frac"]), 0])
            if "mkmk" in on and rng.random() < 0.5:
                g["anchors"].append(["bottom", _q(rng, w / 2 or 100, spec["frac"]), -150])
        if role == "liga":
            if "marks" in on:
                g["anchors"].append(["top_1", _q(rng, w * 0.25, spec["frac"]), 600])
                g["anchors"].append(["top_2", _q(rng, w * 0.75, spec["frac"]), 600])
            g["anchors"].append(["caret_1", _q(rng, w / 2, spec["frac"]), 0])
        if role == "curs" or ("cursive" in on and role == "base" and name.endswith("-ar")):
            g["anchors"].append(["entry", w, rng.choice([0, 50])])
            g["anchors"].append(["exit", 0, rng.choice([0, 120])])
            # several *named* cursive pairs (entry.top/exit.top ...): the curs writer collects
            # the names in a set and emits one lookup per pair.  Private PRNG (keyed by the
            # glyph roster) so that the shared stream is left as it was.
            nrng = random.Random("named-curs:%d:%s" % (upm, ",".join(names)))
            if nrng.random() < 0.5:
                for i, suffix in enumerate(nrng.sample(["top", "mid", "low", "alt", "swash"], nrng.randint(2, 4))):
                    g["anchors"].append(["entry." + suffix, w, 10 + 7 * i])
                    g["anchors"].append(["exit." + suffix, 0, 20 + 9 * i])
        if role == "composite" and rng.random() < 0.2 and "marks" in on:
            g["anchors"].append(["top", _q(rng, w / 2, spec["frac"]), 800])
    if "dottedcircle" in on and "marks" in on and rng.random() < 0.75:
        # tie-prone input for the dotted-circle filter, the one place where ufo2ft
        # averages over the font's glyphs: every glyph with a 'top' anchor gets the
        # same bounding-box width and the anchors are placed so that the synthesized
        # anchor lands exactly on a half unit (n * bw == 2 * dotted-circle advance,
        # sum of the anchor offsets odd) - rounding then exposes any dependence of
        # the average on the order in which the glyphs are visited
        tops = [n for n in glyphs if n != "uni25CC" and any(a[0] == "top" for a in glyphs[n]["anchors"])]
        n_t = len(tops)
        dcw = int(upm * 0.5) + 160  # advance of the glyph the filter draws (xHeight + 2*160 - 2*80)
        if 3 <= n_t <= 6 and not any(glyphs[n]["components"] for n in tops) and any(
                a[0] == "_top" for g_ in glyphs.values() for a in g_["anchors"]):
            if "uni25CC" in glyphs:
                bw = rng.choice([240, 300, 360])
                dcw = n_t * bw // 2
                glyphs["uni25CC"]["width"] = dcw
                glyphs["uni25CC"]["anchors"] = [a for a in glyphs["uni25CC"]["anchors"] if a[0] != "top"]
            else:
                # (the glyph the filter would draw has a non-integral advance: no exact tie)
                bw = None
            if bw:
                offs = [rng.randint(int(bw * 0.2), int(bw * 0.8)) for _ in tops]
                if sum(offs) % 2 == 0:
                    offs[-1] += 1
                for n, off in zip(tops, offs):
                    g = glyphs[n]
                    x0 = rng.choice([0, 10, 35, 60])
                    hgt = rng.choice([300, 450, 520])
                    g["contours"] = [[[x0, 0, "line", False], [x0 + bw, 0, "line", False],
                                      [x0 + bw, hgt, "line", False], [x0, hgt, "line", False]]]
                    for a in g["anchors"]:
                        if a[0] == "top":
                            a[1] = off
                on.add("dc_tie")
    if "contextual_anchor" in on and "marks" in on:
        # a contextual mark anchor ('*top'): attaches only after a given glyph
        bases_ = [n for n, _, r in roster if r == "base" and any(a[0] == "top" for a in glyphs[n]["anchors"])]
        if len(bases_) >= 2:
            n0, n1 = bases_[0], bases_[1]
            g = glyphs[n0]
            ident = "ctx-" + n0.replace(".", "_")
            g["anchors"].append(["*top", g["anchors"][0][1] + 15, 760, ident])
            g["lib"].setdefault("public.objectLibs", {})[ident] = {
                "GPOS_Context": rng.choice(["%s *" % n1, "* %s" % n1])}
    if "multi_anchor" in on and "marks" in on:
        # several anchor classes; mark glyphs that belong to more than one mark class
        # (makes the mark writer's class grouping / lookup splitting non-trivial)
        extra = ["topright", "aside", "bottomright", "ogonek"]
        rng.shuffle(extra)
        extra = extra[: rng.randint(2, 4)]
        mark_names = [n for n, _, r in roster if r.startswith("mark")]
        for k, n in enumerate(mark_names):
            g = glyphs[n]
            for cls in ([extra[k % len(extra)]] + ([extra[(k + 1) % len(extra)]] if rng.random() < 0.5 else [])):
                if not any(a[0] == "_" + cls for a in g["anchors"]):
                    g["anchors"].append(["_" + cls, _q(rng, (g["width"] or 200) / 2, spec["frac"]), rng.choice([300, 450])])
        for n, _, r in roster:
            if r in ("base", "alt", "curs"):
                g = glyphs[n]
                for cls in extra:
                    if rng.random() < 0.8:
                        g["anchors"].append([cls, _q(rng, (g["width"] or 300) * rng.choice([0.2, 0.8, 1.0]), spec["frac"]),
                                             rng.choice([0, 350, 650])])
            if r == "liga" and rng.random() < 0.7:
                g = glyphs[n]
                c0 = extra[0]
                g["anchors"].append([c0 + "_1", _q(rng, (g["width"] or 300) * 0.3, spec["frac"]), 620])
                g["anchors"].append([c0 + "_2", _q(rng, (g["width"] or 300) * 0.7, spec["frac"]), 620])
    if "contextual_anchor" in on and "marks" in on and rng.random() < 0.6:
        # further contextual anchors on the same glyph, for other anchor classes and (mostly)
        # with the *same* context string: one context then dispatches to several lookups
        holders = [n for n, g_ in glyphs.items() if any(a[0] == "*top" for a in g_["anchors"])]
        mark_keys = {a[0][1:] for g_ in glyphs.values() for a in g_["anchors"] if a[0].startswith("_")}
        for n0 in holders:
            g = glyphs[n0]
            ctx = next(iter(g["lib"].get("public.objectLibs", {}).values()), {}).get("GPOS_Context")
            others = [a for a in g["anchors"] if a[0] in mark_keys and a[0] != "top"]
            rng.shuffle(others)
            for a in others[: rng.randint(1, 3)]:
                ident = "ctx-%s-%s" % (n0.replace(".", "_"), a[0])
                g["anchors"].append(["*" + a[0], a[1] + 10, a[2] + 40, ident])
                g["lib"].setdefault("public.objectLibs", {})[ident] = {
                    "GPOS_Context": ctx if (ctx and rng.random() < 0.75) else "* %s" % n0}
    if "composites" in on and "space" in glyphs and rng.random() < 0.4:
        # composites made of an *empty* glyph: decomposing them removes the component
        # without adding a single contour
        glyphs["uni00A0"] = _empty_glyph(glyphs["space"]["width"])
        glyphs["uni00A0"]["unicodes"] = [0xA0]
        glyphs["uni00A0"]["components"] = [["space", [1, 0, 0, 1, 0, 0]]]
        roster.append(("uni00A0", [0xA0], "spacecomp"))
        names.append("uni00A0")
        if rng.random() < 0.5:
            glyphs["uni2009"] = _empty_glyph(int(glyphs["space"]["width"] / 2))
            glyphs["uni2009"]["unicodes"] = [0x2009]
            glyphs["uni2009"]["components"] = [["space", [0.5, 0, 0, 1, 0, 0]]]
            roster.append(("uni2009", [0x2009], "spacecomp"))
            names.append("uni2009")
    if "tt_instructions" in on:
        lib_tt = {"formatVersion": "1", "controlValue": {"0": 0, "2": 500, "5": -12},
                  "controlValueProgram": "PUSHB[ ] 0\nFDEF[ ]\nENDF[ ]" if rng.random() < 0.3 else "PUSHW[ ] 511\nSCANCTRL[ ]",
                  "fontProgram": "PUSHB[ ] 0\nFDEF[ ]\nPOP[ ]\nENDF[ ]",
                  "maxStorage": 4, "maxFunctionDefs": 2, "maxStackElements": 16, "maxZones": 2}
        if rng.random() < 0.3:
            del lib_tt["controlValue"]
        tt_lib = lib_tt
        for n, _, r in roster:
            g = glyphs[n]
            if r == "base" and rng.random() < 0.4:
                # (a stale hash: ufo2ft then drops the program with a warning)
                g["lib"]["public.truetype.instructions"] = {"formatVersion": "1", "id": "stale-hash",
                                                            "assembly": "PUSHB[ ] 0\nMDAP[1]"}
            if g["components"]:
                if rng.random() < 0.5:
                    g["lib"]["public.truetype.overlap"] = rng.random() < 0.5
                if rng.random() < 0.6:
                    ol = {}
                    for k, comp in enumerate(g["components"]):
                        if len(comp) == 2:
                            # identifiers as editors write them: unique across the font
                            comp.append("id-%s-%d" % (n.replace(".", "_"), k))
                        if rng.random() < 0.7:
                            ol[comp[2]] = {}
                            if rng.random() < 0.6:
                                ol[comp[2]]["public.truetype.useMyMetrics"] = rng.random() < 0.6
                            if rng.random() < 0.5:
                                ol[comp[2]]["public.truetype.roundOffsetToGrid"] = rng.random() < 0.5
                    if ol:
                        g["lib"]["public.objectLibs"] = ol
    else:
        tt_lib = None
    if "vertical" in on:
        for g in glyphs.values():
            g["height"] = rng.choice([upm, upm + 100])
            if rng.random() < 0.5:
                g["lib"]["public.verticalOrigin"] = rng.choice([800, 880])
    if "glyph_lib" in on:
        for n in names[:3]:
            glyphs[n]["lib"]["com.example.note"] = {"k": [1, 2, {"z": "q"}]}
    if "underline_pos" in on:
        pass

    # ------------------------------------------------------------- kerning / groups
    kern_names = [n for n, _, r in roster if r in ("base", "alt", "composite", "curs", "liga")]
    groups = {}
    kerning = []
    if "groups" in on and len(kern_names) >= 2:
        shuffled = list(kern_names)
        rng.shuffle(shuffled)
        k1 = shuffled[: rng.randint(1, min(3, len(shuffled)))]
        rng.shuffle(shuffled)
        k2 = shuffled[: rng.randint(1, min(3, len(shuffled)))]
        groups["public.kern1.G1"] = k1
        groups["public.kern2.G2"] = k2
        if rng.random() < 0.4:
            groups["public.kern1.empty"] = []
        if rng.random() < 0.5:
            groups["nonkern.misc"] = shuffled[:2]
        if rng.random() < 0.3:
            groups["public.kern1.G1"] = k1 + ["ghost"]  # member that does not exist
    if "kerning" in on and kern_names:
        sides1 = list(kern_names) + [g for g in groups if g.startswith("public.kern1.")]
        sides2 = list(kern_names) + [g for g in groups if g.startswith("public.kern2.")]
        seen = set()
        for _ in range(rng.randint(1, 7)):
            l, r = rng.choice(sides1), rng.choice(sides2)
            if (l, r) in seen:
                continue
            seen.add((l, r))
            v = rng.choice([-80, -50, -35, -20, 10, 25, 40, 0])
            if spec["frac"] and rng.random() < 0.2:
                v += 0.5
            kerning.append([l, r, v])
        if marks and rng.random() < 0.4:
            kerning.append([kern_names[0], marks[0][0], -15])
        k1g = [g for g in groups if g.startswith("public.kern1.") and groups[g]]
        if k1g and rng.random() < 0.7:
            # a class pair plus an exception for one member of the class
            g1 = k1g[0]
            member = [m for m in groups[g1] if m in nameset]
            r = rng.choice(kern_names)
            if member and (g1, r) not in seen and (member[0], r) not in seen:
                seen.add((g1, r))
                seen.add((member[0], r))
                kerning.append([g1, r, rng.choice([-60, -45, 30])])
                kerning.append([member[0], r, rng.choice([-5, 12, -90])])
        if "multiscript" in on:
            # kerning inside each of several scripts (several per-script kern lookups)
            latin = [n for n in kern_names if n.split(".")[0] in ("A", "V", "T", "a", "o", "n")]
            other = [n for n in kern_names if n.split(".")[0] in ("alpha", "Sigma")]
            cyr = [n for n in kern_names if n.split(".")[0] in ("uni0430", "uni0414")]
            extra_pairs = []
            for grp in (latin, other, cyr):
                if grp:
                    extra_pairs.append([rng.choice(grp), rng.choice(grp), rng.choice([-30, -12, 18])])
            rng.shuffle(extra_pairs)
            for l, r, v in extra_pairs:
                if (l, r) not in seen:
                    seen.add((l, r))
                    kerning.append([l, r, v])

    # ------------------------------------------------------------- features
    fea = []
    if "feature_text" in on:
        ls = ["languagesystem DFLT dflt;", "languagesystem latn dflt;"]
        if "rtl" in on and rng.random() < 0.7:
            ls.append("languagesystem arab dflt;")
        if rng.random() < 0.3:
            ls.append("languagesystem latn TRK;")
        if rng.random() < 0.8:
            fea.append("\n".join(ls))
        if len(base_names) >= 2 and rng.random() < 0.5:
            fea.append("@UC = [%s];" % " ".join(base_names[:3]))
        alts = [n for n, _, r in roster if r == "alt"]
        if alts and rng.random() < 0.8:
            fea.append("feature salt {\n" + "\n".join(
                "    sub %s by %s;" % (a[:-4], a) for a in alts) + "\n} salt;")
        ligas = [n for n, _, r in roster if r == "liga"]
        if ligas and rng.random() < 0.8:
            a, b = ligas[0].split("_")
            fea.append("feature liga {\n    sub %s %s by %s;\n} liga;" % (a, b, ligas[0]))
        curs = [n for n, _, r in roster if r == "curs"]
        if curs and rng.random() < 0.7:
            fea.append("feature init {\n" + "\n".join(
                "    sub %s by %s;" % (c[:-5], c) for c in curs) + "\n} init;")
    if "kern_block" in on and len(kern_names) >= 2:
        marker = rng.choice(["    # Automatic Code\n", "", "    # automatic code\n", "    # Automatic Code end\n"])
        pos = "    pos %s %s -33;\n" % (kern_names[0], kern_names[1])
        body = rng.choice([marker + pos, pos + marker, marker])
        if body.strip():
            fea.append("feature kern {\n" + body + "} kern;")
    if "gdef_block" in on and not ("dottedcircle" in on and rng.random() < 0.85):
        b = [n for n, _, r in roster if r in ("base", "alt", "composite")]
        l = [n for n, _, r in roster if r == "liga"]
        m = [n for n, _, r in roster if r.startswith("mark")]
        fea.append("table GDEF {\n    GlyphClassDef [%s], [%s], [%s], ;\n} GDEF;" % (
            " ".join(b), " ".join(l), " ".join(m)))
    include_files = {}
    if "fea_include" in on and len(base_names) >= 2:
        # part of the feature code lives in a separate file next to the UFO
        include_files["extra_classes.fea"] = "@INC = [%s];\n" % " ".join(base_names[:2])
        fea.insert(0, "include(extra_classes.fea);")
    features = "\n\n".join(fea)
    if features:
        features += "\n"

    # ------------------------------------------------------------- lib
    lib = {}
    if tt_lib is not None:
        lib["public.truetype.instructions"] = tt_lib
    if "glyphorder" in on:
        go = list(names)
        rng.shuffle(go)
        go = go[: rng.randint(1, len(go))]
        if rng.random() < 0.3:
            go.insert(rng.randint(0, len(go)), "nonexistent")
        if rng.random() < 0.2 and go:
            go.append(go[0])
        lib["public.glyphOrder"] = go
    referenced_in_fea = {n for n in names if n in features}
    if "categories" in on:
        cats = {}
        for n, _, r in roster:
            if r.startswith("mark"):
                cats[n] = "mark"
            elif r == "liga":
                cats[n] = "ligature"
            elif r in ("base", "alt", "composite") and rng.random() < 0.6:
                cats[n] = "base"
        if rng.random() < 0.2:
            cats["ghost"] = "base"
        lib["public.openTypeCategories"] = cats
    if "psnames" in on:
        lib["public.postscriptNames"] = {n: "ps." + n.replace("-", "") for n in names[:: 2] if n != ".notdef"}
    if "prodnames_off" in on:
        lib[rng.choice([UFO2FT + "useProductionNames", UFO2FT + "keepGlyphNames"])] = rng.choice([True, False])
    if "libfilters" in on:
        fl = []
        choices = ["propagateAnchors", "transformations", "decomposeTransformedComponents",
                   "flattenComponents", "sortContours", "removeOverlaps", "reverseContourDirection",
                   "decomposeComponents", "cubicToQuadratic"]
        for _ in range(rng.randint(1, 3)):
            nm = rng.choice(choices)
            d = {"name": nm}
            if nm == "propagateAnchors":
                d["pre"] = True
            elif nm == "transformations":
                d["kwargs"] = rng.choice([
                    {"OffsetX": 10, "OffsetY": -5}, {"ScaleX": 90, "ScaleY": 110},
                    {"Slant": 12, "Origin": 2}, {"OffsetX": 0}])
                d["pre"] = rng.random() < 0.5
            elif nm == "decomposeComponents":
                d["pre"] = True
            elif nm == "removeOverlaps":
                d["kwargs"] = {"backend": "pathops" if spec["quad"] and rng.random() < 0.9
                               else rng.choice(["booleanOperations", "pathops"])}
            elif nm == "cubicToQuadratic":
                # (rememberCurveType is deliberately left at its default: with True the
                # filter's documented purpose is to make later conversions depend on
                # state remembered in place, which is outside C08)
                d["kwargs"] = {"reverseDirection": False}
                rng.random()
            x = rng.random()
            if x < 0.3:
                sub = list(names)
                rng.shuffle(sub)
                d["include"] = sub[: rng.randint(1, max(1, len(sub) // 2))]
            elif x < 0.5:
                sub = list(names)
                rng.shuffle(sub)
                d["exclude"] = sub[: rng.randint(1, max(1, len(sub) // 2))]
            fl.append(d)
        lib[UFO2FT + "filters"] = fl
    if "dottedcircle" in on:
        lib.setdefault(UFO2FT + "filters", []).append({"name": "dottedCircle", "pre": True})
    if "libwriters" in on:
        opts = [
            [{"class": "KernFeatureWriter", "options": {"mode": "append"}},
             {"class": "MarkFeatureWriter"}],
            [{"class": "MarkFeatureWriter", "options": {"quantization": 5}},
             {"class": "KernFeatureWriter", "options": {"quantization": 5, "ignoreMarks": False}},
             {"class": "GdefFeatureWriter"}],
            [{"class": "KernFeatureWriter", "module": "ufo2ft.featureWriters.kernFeatureWriter2"},
             {"class": "MarkFeatureWriter", "options": {"groupMarkClasses": True}},
             {"class": "CursFeatureWriter"}, {"class": "GdefFeatureWriter"}],
            [],
            [{"class": "NoSuchWriter"}, {"class": "KernFeatureWriter"}],
        ]
        lib[UFO2FT + "featureWriters"] = rng.choice(opts)
    if "uvs" in on:
        b = [(n, u) for n, u, r in roster if u and r == "base"]
        if b:
            n, u = b[0]
            seqs = {"FE00": {"%04X" % u[0]: n}}
            alts = [x for x, _, r in roster if r == "alt"]
            if alts:
                seqs["FE01"] = {"%04X" % u[0]: alts[0]}
            lib["public.unicodeVariationSequences"] = seqs
    if "math" in on:
        lib["com.nagwa.MATHPlugin.constants"] = {
            "ScriptPercentScaleDown": 70, "ScriptScriptPercentScaleDown": 50,
            "AxisHeight": 250, "MinConnectorOverlap": rng.choice([20, 50]),
            "RadicalDegreeBottomRaisePercent": 60,
        }
        if rng.random() < 0.5:
            del lib["com.nagwa.MATHPlugin.constants"]["MinConnectorOverlap"]
        if rng.random() < 0.5:
            lib["com.nagwa.MATHPlugin.extendedShape"] = [base_names[0]]
        g0 = glyphs[base_names[0]]
        g0["anchors"].append(["math.ic", g0["width"] + 20, 0])
        if rng.random() < 0.5:
            g0["anchors"].append(["math.tr0", g0["width"] - 10, 300])
            g0["anchors"].append(["math.tr1", g0["width"] - 30, 500])
        if len(base_names) >= 2:
            g0["lib"]["com.nagwa.MATHPlugin.variants"] = {
                "vVariants": [base_names[0], base_names[1]],
                "vAssembly": [[base_names[1], 0, 0, 100], [base_names[0], 1, 100, 100]],
            }
            if rng.random() < 0.5:
                g0["lib"]["com.nagwa.MATHPlugin.variants"].update({
                    "hVariants": [base_names[1], base_names[0]],
                    "hAssembly": [[base_names[0], 0, 0, 50], [base_names[1], 1, 50, 0]]})
            if len(base_names) >= 3 and rng.random() < 0.6:
                g2 = glyphs[base_names[2]]
                g2["lib"]["com.nagwa.MATHPlugin.variants"] = {
                    "vAssembly": [[base_names[2], 0, 0, 100], [base_names[0], 1, 100, 100]],
                    "hAssembly": [[base_names[1], 0, 0, 50], [base_names[0], 0, 50, 0]]}
            if rng.random() < 0.4:
                g0["anchors"].append(["math.ta", g0["width"] / 2, 700])
                g0["anchors"].append(["math.bl0", 10, 0])
    if "skipexport" in on:
        protected = set(referenced_in_fea)
        for seq in lib.get("public.unicodeVariationSequences", {}).values():
            protected |= set(seq.values())
            protected |= {n for n, u, r in roster if any("%04X" % x in seq for x in u)}
        if "math" in on:
            protected |= set(base_names[:2])
        cand = [n for n, _, r in roster if r in ("base", "alt", "mark_top", "mark_bottom", "composite")
                and n not in protected and n != ".notdef"]
        notdef_too = ".notdef" in [r_[0] for r_ in roster] and rng.random() < 0.15
        rng.shuffle(cand)
        # prefer (half of the time) non-export glyphs that other, exported glyphs are named
        # after or built from: 'A' for 'A.comp0' / 'A.alt' / 'A_V' - name derivation and
        # decomposition then see a different glyph set before and after the pruning
        stems = [n for n in cand if any(o != n and (o.startswith(n + ".") or n in o.split(".")[0].split("_"))
                                        for o, _, _ in roster)]
        if stems and rng.random() < 0.5:
            cand = stems + [n for n in cand if n not in stems]
        if cand:
            lib["public.skipExportGlyphs"] = cand[: rng.randint(1, min(2, len(cand)))]
            if notdef_too:
                # a non-export '.notdef' (the compiler then supplies its own placeholder)
                lib["public.skipExportGlyphs"].append(".notdef")
    layers = {}
    if "color" in on:
        lib[UFO2FT + "colorPalettes"] = [[[1, 0, 0, 1], [0, 0, 1, 1]]]
        cname = base_names[0]
        lg = _simple_glyph(rng, spec, width=glyphs[cname]["width"], ncontours=1)
        lg2 = _simple_glyph(rng, spec, width=glyphs[cname]["width"], ncontours=1)
        if "marks" in on and rng.random() < 0.6:
            # colour-layer glyphs that carry the base glyph's attaching anchors
            lg["anchors"] = [list(a) for a in glyphs[cname]["anchors"] if not a[0].startswith("_")][:2]
            if rng.random() < 0.5:
                lg2["anchors"] = [list(a) for a in lg["anchors"]]
        layers["color1"] = {cname: lg}
        layers["color2"] = {cname: lg2}
        mapping = [["color1", 1], ["color2", 0]]
        if rng.random() < 0.5:
            lib[UFO2FT + "colorLayerMapping"] = mapping
        else:
            glyphs[cname]["lib"][UFO2FT + "colorLayerMapping"] = mapping
        if comps and comps[0][0] in glyphs and rng.random() < 0.5:
            # colour layer glyph made of a component (exercises component renaming)
            lg3 = _empty_glyph(glyphs[cname]["width"])
            lg3["components"].append([cname, [1, 0, 0, 1, 10, 0]])
            tgt = comps[0][0]
            layers["color1"][tgt] = lg3
            glyphs[tgt]["lib"][UFO2FT + "colorLayerMapping"] = [["color1", 0]]
    if "colrv1" in on and "color" not in on:
        # explicit (already exploded) COLRv1 colour layers: several colour glyphs whose
        # paints reference other glyphs of the font; no filter involved
        paintable = [n for n, _, r in roster if r in ("base", "alt") and glyphs[n]["contours"]]
        if len(paintable) >= 2:
            lib[UFO2FT + "colorPalettes"] = [[[1, 0, 0, 1], [0, 0, 1, 1], [0, 1, 0, 1]]]
            cl = {}
            order = list(paintable)
            rng.shuffle(order)
            for k, n in enumerate(order[: rng.randint(2, min(4, len(order)))]):
                others = [m for m in paintable if m != n] or paintable
                layers_ = [{"Format": 10, "Glyph": rng.choice(others),
                            "Paint": {"Format": 2, "PaletteIndex": (k + j) % 3, "Alpha": 1.0}}
                           for j in range(rng.randint(1, 3))]
                cl[n] = {"Format": 1, "Layers": layers_}
            lib[UFO2FT + "colorLayers"] = cl
            used = set(cl) | {l["Glyph"] for v in cl.values() for l in v["Layers"]}
            if "public.skipExportGlyphs" in lib:
                lib["public.skipExportGlyphs"] = [n for n in lib["public.skipExportGlyphs"] if n not in used]
            if rng.random() < 0.3:
                lib[UFO2FT + "colrClipBoxes"] = [[[order[0]], [0, 0, 500, 700]]]
    if "background_layer" in on:
        layers["public.background"] = {names[0]: _simple_glyph(rng, spec, ncontours=1)}
        if rng.random() < 0.3:
            layers["empty.layer"] = {}
    if "meta" in on:
        lib["public.openTypeMeta"] = {"dlng": ["en-Latn"], "slng": ["Latn", "Grek"]}
        if rng.random() < 0.4:
            lib["public.openTypeMeta"]["Simx"] = "free text"
    if "underline_pos" in on:
        lib["public.openTypePostUnderlinePosition"] = -75
    data = {}
    if "ttx_data" in on:
        data["com.github.fonttools.ttx/T_S_I__0.ttx"] = (
            '<?xml version="1.0" encoding="UTF-8"?>\n<ttFont>\n  <TSI0>\n'
            '    <!-- This table will be calculated by the compiler -->\n  </TSI0>\n</ttFont>\n')
        if rng.random() < 0.5:
            data["com.github.fonttools.ttx/D_S_I_G_.ttx"] = (
                '<?xml version="1.0" encoding="UTF-8"?>\n<ttFont>\n  <DSIG>\n'
                '    <tableHeader flag="0x0" numSigs="0" version="1"/>\n  </DSIG>\n</ttFont>\n')
            if rng.random() < 0.6:
                # a second dump carrying the same table: the one merged last wins, so the
                # order in which the data directory is walked becomes visible
                data["com.github.fonttools.ttx/A_override.ttx"] = (
                    '<?xml version="1.0" encoding="UTF-8"?>\n<ttFont>\n  <DSIG>\n'
                    '    <tableHeader flag="0x1" numSigs="0" version="1"/>\n  </DSIG>\n</ttFont>\n')
        data["com.example/readme.txt"] = "not a ttx file"

    info = {
        "familyName": rng.choice(["Sim Sans", "Simulé", "S"]),
        "styleName": "Regular",
        "unitsPerEm": upm,
        "ascender": int(upm * 0.8), "descender": -int(upm * 0.2),
        "xHeight": int(upm * 0.5), "capHeight": int(upm * 0.7),
    }
    if "vertical" in on and rng.random() < 0.7:
        info.update({"openTypeVheaVertTypoAscender": upm // 2, "openTypeVheaVertTypoDescender": -(upm // 2),
                     "openTypeVheaVertTypoLineGap": 0})
    if "openinfo" in on:
        info.update({
            "versionMajor": 1, "versionMinor": rng.choice([0, 5]),
            "openTypeOS2WeightClass": 400,
            "openTypeNameRecords": [{"nameID": 8, "platformID": 3, "encodingID": 1,
                                     "languageID": 0x409, "string": "Sim Foundry"}],
            "openTypeOS2Type": [2],
            "openTypeOS2Panose": [2, 0, 5, 3, 0, 0, 0, 0, 0, 0],
            "postscriptBlueValues": [-10, 0, 500, 510],
            "italicAngle": rng.choice([0, -9.5]),
            "copyright": "© Sim",
        })
        if rng.random() < 0.4:
            info["styleMapStyleName"] = rng.choice(["bold", "italic", "bold italic", "regular"])
            info["styleMapFamilyName"] = info["familyName"]
        if rng.random() < 0.3:
            info["openTypeHeadCreated"] = "2020/01/02 03:04:05"
        if rng.random() < 0.3:
            info["openTypeGaspRangeRecords"] = [{"rangeMaxPPEM": 65535, "rangeGaspBehavior": [0, 1]}]

    master0 = {"name": "master_0", "info": info, "glyphs": glyphs, "glyph_order": names,
               "kerning": kerning, "groups": groups, "features": features, "lib": lib,
               "layers": layers, "data": data}
    # insertion order of the data files (a JSON object carries no order of its own)
    master0["data_order"] = list(data)
    if len(data) > 1 and rng.random() < 0.5:
        rng.shuffle(master0["data_order"])

    # ------------------------------------------------------------- other masters
    axes = []
    variable_fonts = []
    masters = [master0]
    sparse = []
    rules = []
    instances = []
    dslib = {}
    if n_masters >= 1:
        naxes = 1 if n_masters < 3 or rng.random() < 0.5 else 2
        ax0 = {"name": "Weight", "tag": "wght", "minimum": 400, "default": 400, "maximum": 700}
        use_map = rng.random() < 0.3
        if use_map:
            ax0["map"] = [[400, 20], [550, 80], [700, 170]]
        # a default that lies strictly inside the axis, with sides of different length
        # (third master below the default instead of between default and maximum)
        low_master = n_masters >= 3 and naxes == 1 and rng.random() < 0.4
        if low_master:
            ax0["minimum"] = 250
            if use_map:
                ax0["map"].insert(0, [250, 5])
        axes.append(ax0)
        if naxes == 2:
            if rng.random() < 0.3:
                # slant axis (italic angle is derived from it when no master sets one);
                # same numeric range so that the master placement below stays valid
                axes.append({"name": "Width", "tag": "slnt", "minimum": 75, "default": 100, "maximum": 100,
                             "map": [[75, -12], [100, 0]] if False else None})
                axes[-1].pop("map")
                axes[-1].update({"minimum": -12, "default": 0, "maximum": 0})
            else:
                axes.append({"name": "Width", "tag": "wdth", "minimum": 75, "default": 100, "maximum": 100})

        def dloc(user):  # user-space -> design-space for master placement
            out = {}
            for ax in axes:
                v = user[ax["name"]]
                if "map" in ax:
                    mp = dict((a, b) for a, b in ax["map"])
                    v = mp[v]
                out[ax["name"]] = v
            return out

        a2d = axes[1]["default"] if naxes == 2 else 100
        a2m = axes[1]["minimum"] if naxes == 2 else 75
        locs_user = [{"Weight": 400, "Width": a2d}]
        if n_masters >= 2:
            locs_user.append({"Weight": 700, "Width": a2d})
        if n_masters >= 3:
            if naxes == 2:
                locs_user.append({"Weight": 400, "Width": a2m})
            elif low_master:
                locs_user.append({"Weight": 250, "Width": 100})
            else:
                locs_user.append({"Weight": 550, "Width": 100})
        locs_user = [{a["name"]: l[a["name"]] for a in axes} for l in locs_user]
        master0["location"] = dloc(locs_user[0])
        for k in range(1, n_masters):
            mk = _perturb_master(rng, master0, k, on, spec)
            mk["location"] = dloc(locs_user[k])
            masters.append(mk)
        if n_masters >= 2 and rng.random() < p_sparse and naxes == 1 and n_masters == 2:
            # sparse intermediate master stored as a layer of master 0
            pool_sp = [n for n, _, r in roster if r in ("base", "mixed", "composite", "alt", "liga")
                       or r.startswith("nested:") or r.startswith("mark")]
            x_sp = rng.random()
            if x_sp < 0.35:
                # only glyphs that *use* components: their bases must be interpolated
                dep = [n for n, _, r in roster if r in ("mixed", "composite") or r.startswith("nested:")]
                rng.shuffle(dep)
                pool_sp = dep + [n for n in pool_sp if n not in dep]
                sub = pool_sp[: max(1, min(len(dep), rng.randint(1, 4)))]
            else:
                if x_sp < 0.7:
                    rng.shuffle(pool_sp)  # e.g. a composite without its base, or only a base
                sub = pool_sp[: rng.randint(1, 4)]
            lname = "Medium"
            lay = {}
            for n in sub:
                lay[n] = _perturb_glyph(rng, glyphs[n], 0.5, spec, keep_components=True)
            master0["layers"][lname] = lay
            sparse.append({"master": 0, "layer": lname, "location": dloc({"Weight": 550})})
        if "alternates" in on and n_masters >= 2 and rng.random() < 0.6:
            alts = [n for n, _, r in roster if r == "alt"]
            if alts:
                lo = dloc({"Weight": 550, "Width": a2d} if naxes == 2 else {"Weight": 550})["Weight"]
                hi = dloc({"Weight": 700, "Width": a2d} if naxes == 2 else {"Weight": 700})["Weight"]
                rules.append({"name": "bold_alt", "conditionSets": [[{"name": "Weight", "minimum": lo, "maximum": hi}]],
                              "subs": [[a[:-4], a] for a in alts]})
                if rng.random() < 0.4:
                    # a second, overlapping rule (rule and <sub> order matter)
                    mid = (lo + hi) / 2
                    rules.append({"name": "black_alt", "conditionSets": [[{"name": "Weight", "minimum": mid, "maximum": hi}]],
                                  "subs": [[a, a[:-4]] for a in alts[:1]] if rng.random() < 0.5
                                  else [[alts[0][:-4], alts[-1]]]})
        for i in range(rng.randint(0, 2)):
            wu = rng.choice([400, 475, 550, 625, 700] + ([250, 325, 310] if low_master else []))
            inst = {"Weight": wu}
            if naxes == 2:
                inst["Width"] = rng.choice([a2m, (a2m + a2d) / 2, a2d])
            # instance design locations: interpolate the map if any
            instances.append({"styleName": "I%d" % i, "familyName": info["familyName"],
                              "user": inst})
        if "ds5_vfs" in on and n_masters >= 2:
            vf_info = {"familyName": info["familyName"] + " VF", "styleName": "Var",
                       "versionMajor": 3, "trademark": "tm"}
            if rng.random() < 0.5:
                vf_info["openTypeOS2VendorID"] = "SIMV"
            variable_fonts = [{"name": "SimVF", "axes": [a["name"] for a in axes], "lib": {"public.fontInfo": vf_info}}]
            if rng.random() < 0.5:
                variable_fonts.insert(0, {"name": "SimVF_plain", "axes": [a["name"] for a in axes], "lib": {}})
            if naxes == 2 and rng.random() < 0.5:
                variable_fonts.append({"name": "SimVF_wght", "axes": ["Weight"],
                                       "lib": {"public.fontInfo": {"styleName": "WeightOnly"}} if rng.random() < 0.5 else {}})
        if "ds_skipexport" in on:
            prot = set(referenced_in_fea) | set(base_names[:2])
            for seq in lib.get("public.unicodeVariationSequences", {}).values():
                prot |= set(seq.values())
                prot |= {n for n, u, r in roster if any("%04X" % x in seq for x in u)}
            for r_ in rules:
                for a_, b_ in r_["subs"]:
                    prot |= {a_, b_}
            cand = [n for n, _, r in roster if r in ("base", "alt") and n not in prot]
            if cand:
                dslib["public.skipExportGlyphs"] = [rng.choice(cand)]
                if ".notdef" in names and rng.random() < 0.15:
                    dslib["public.skipExportGlyphs"].append(".notdef")
    if axes and n_masters in (1, 2) and "discrete_axis" not in forbid and (
            "discrete_axis" in force or rng.random() < 0.07):
        # a discrete (non-interpolating) axis: the document splits into one interpolable
        # sub-space per value (compileVariable*s builds one font per sub-space; the
        # singular functions and the Instantiator refuse such a document)
        on.add("discrete_axis")
        axes.append({"name": "Italic", "tag": "ital", "discrete": [0, 1], "default": 0})
        for m in masters:
            m["location"]["Italic"] = 0
        for sp in sparse:
            sp["location"]["Italic"] = 0
        for k, m in enumerate(list(masters)):
            mk = _perturb_master(rng, m, 1, on, spec)
            mk["name"] = "master_i%d" % k
            mk["info"]["styleName"] = m["info"].get("styleName", "Regular") + " Italic"
            mk["location"] = dict(m["location"], Italic=1)
            masters.append(mk)
        for inst in instances:
            inst["user"]["Italic"] = rng.choice([0, 1])
        for vf in variable_fonts:
            vf["axes"] = [a for a in vf["axes"] if a != "Italic"]
            vf["values"] = {"Italic": rng.choice([0, 1])}
    source_order = None
    nsrc = len(masters) + len(sparse)
    if nsrc >= 2 and rng.random() < 0.35:
        source_order = list(range(nsrc))
        rng.shuffle(source_order)
    if "categories" in on and axes and rng.random() < 0.3:
        # designspace-level categories (used by the variable feature writers)
        dcats = dict(lib.get("public.openTypeCategories", {}))
        for n in names[:2]:
            dcats[n] = "base"
        if marks:
            dcats[marks[0][0]] = "mark"
        dslib["public.openTypeCategories"] = dcats
    # a non-default <source> that names its UFO's default layer explicitly (layer="public.default")
    explicit_default_layer = bool(len(masters) >= 2 and "explicit_default_layer" not in forbid
                                  and rng.random() < 0.1)
    if explicit_default_layer:
        on.add("explicit_default_layer")
    fam = {"features_on": sorted(on), "upm": upm, "axes": axes, "masters": masters, "source_order": source_order,
           "explicit_default_layer": explicit_default_layer,
           "include_files": include_files,
           "partial_source_locations": (rng.choice([True, "all"]) if axes and rng.random() < 0.3 else False),
           "sparse": sparse, "rules": rules, "instances": instances, "dslib": dslib,
           "variable_fonts": variable_fonts}
    return fam


def _perturb_glyph(rng, g, k, spec, keep_components=False):
    out = {"width": g["width"], "height": g["height"], "unicodes": list(g["unicodes"]),
           "contours": [], "components": [], "anchors": [], "lib": _deep(g["lib"])}
    frac = spec["frac"]
    dw = rng.choice([0, 20, 40, -10])
    if g["width"]:
        out["width"] = g["width"] + (dw * k if not frac else dw * k)
        if not frac:
            out["width"] = int(round(out["width"]))
        out["width"] = max(0, out["width"])
    for c in g["contours"]:
        nc = []
        for x, y, t, s in c:
            dx = rng.choice([0, 5, 10, -8, 20]) * k
            dy = rng.choice([0, 0, 6, -4]) * k
            nx, ny = x + dx, y + dy
            if not frac:
                nx, ny = int(round(nx)), int(round(ny))
            nc.append([nx, ny, t, s])
        out["contours"].append(nc)
    for comp in g["components"]:
        base, tr = comp[0], comp[1]
        ntr = list(tr)
        ntr[4] = tr[4] + rng.choice([0, 10, 30]) * k
        ntr[5] = tr[5] + rng.choice([0, 0, 15]) * k
        if not frac:
            ntr[4], ntr[5] = int(round(ntr[4])), int(round(ntr[5]))
        out["components"].append([base, ntr] + list(comp[2:]))
    for a in g["anchors"]:
        name, x, y = a[0], a[1], a[2]
        nx, ny = x + rng.choice([0, 10, -5]) * k, y + rng.choice([0, 20]) * k
        if not frac:
            nx, ny = int(round(nx)), int(round(ny))
        out["anchors"].append([name, nx, ny] + list(a[3:]))
    return out


def _deep(v):
    if isinstance(v, dict):
        return {k: _deep(x) for k, x in v.items()}
    if isinstance(v, list):
        return [_deep(x) for x in v]
    return v


def _perturb_groups(rng, groups):
    """Mostly identical groups in every master; sometimes a non-default master
    disagrees (the instantiator then uses the default source's groups)."""
    g = _deep(groups)
    if g and rng.random() < 0.15:
        name = sorted(g)[0]
        if g[name]:
            g[name] = g[name][:-1] if (rng.random() < 0.5 or "ghost2" in g[name]) else g[name] + ["ghost2"]
    return g


def _perturb_master(rng, m0, k, on, spec):
    glyphs = {n: _perturb_glyph(rng, g, k, spec) for n, g in m0["glyphs"].items()}
    # occasionally make a component's 2x2 differ between masters (forces joint decomposition)
    if "transformed" in on and rng.random() < 0.3:
        for g in glyphs.values():
            if g["components"]:
                g["components"][0][1][0] = g["components"][0][1][0] * 1.5
                break
    kerning = []
    for l, r, v in m0["kerning"]:
        is_exception = (not l.startswith("public.")) and any(
            l in members and [g, r, vv][:2] == [g, r] for g, members in m0["groups"].items()
            if g.startswith("public.kern1.") for (ll, rr, vv) in m0["kerning"] if ll == g and rr == r)
        if rng.random() < (0.3 if is_exception else 0.06):
            continue  # pair only present in some masters
        kerning.append([l, r, v + rng.choice([0, -10, -20, 15]) * k])
    if rng.random() < 0.2 and m0["kerning"]:
        l, r, v = m0["kerning"][0]
        kerning.append([r if not r.startswith("public.") else l, l if not l.startswith("public.") else r, -7])
        # may duplicate an existing pair: dedupe
        seen, ded = set(), []
        for l, r, v in kerning:
            if (l, r) not in seen:
                seen.add((l, r))
                ded.append([l, r, v])
        kerning = ded
    if rng.random() < 0.12:
        glyphs["extra.only_here"] = _simple_glyph(rng, spec, ncontours=1)
    info = _deep(m0["info"])
    info["styleName"] = ["Regular", "Bold", "Condensed"][k] if k < 3 else "M%d" % k
    if "openTypeOS2WeightClass" in info:
        info["openTypeOS2WeightClass"] = 700 if k == 1 else 400
    info["ascender"] = m0["info"]["ascender"] + 10 * k
    lib = _deep(m0["lib"])
    fmode = rng.random()
    features = m0["features"] if fmode < 0.8 else ("" if fmode < 0.92 else m0["features"] + "\n# master %d\n" % k)
    layers = {}
    for ln, lay in m0["layers"].items():
        if ln.startswith("color") or ln == "public.background":
            layers[ln] = {n: _perturb_glyph(rng, g, k, spec) for n, g in lay.items()}
    return {"name": "master_%d" % k, "info": info, "glyphs": glyphs,
            "glyph_order": list(m0["glyph_order"]) + [n for n in glyphs if n not in m0["glyphs"]],
            "kerning": kerning, "groups": _perturb_groups(rng, m0["groups"]), "features": features, "lib": lib,
            "layers": layers, "data": _deep(m0["data"]), "data_order": list(m0.get("data_order", []))}
