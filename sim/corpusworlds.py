"""Worlds taken from the vendored subset of the repository's own fixtures."""
from __future__ import annotations

import os

from . import CORPUS_DIR

SINGLE_UFOS = [
    "TestFont.ufo", "MultipleAnchorClasses.ufo", "ContextualAnchorsTest-Regular.ufo",
    "SpacingCombiningTest-Regular.ufo", "TestMathFont-Regular.ufo", "ColorTest.ufo",
    "ColorTestRaw.ufo", "COLRv1Test.ufo", "MTIFeatures.ufo", "DottedCircleTest.ufo",
    "CantarellAnchorPropagation.ufo", "UseMyMetrics.ufo", "Alternates-Regular.ufo",
    "ContourOrderTest.ufo", "IgnoreAnchorsTest-Thin.ufo",
]
PAIRS = [
    ["LayerFont-Regular.ufo", "LayerFont-Bold.ufo"],
    ["ComponentTransformTest-Regular.ufo", "ComponentTransformTest-Bold.ufo"],
    ["SwapGlyphNames/A.ufo", "SwapGlyphNames/B.ufo"],
]
DESIGNSPACES = [
    "TestVarfea.designspace", "TestVarFont.designspace", "NestedComponents.designspace",
    "SkipExportGlyphsTest.designspace", "OTestFont.designspace",
    "DesignspaceRuleOrder/MyFont.designspace",
    "DesignspaceTest/DesignspaceTest.designspace",
    "DesignspaceTest/DesignspaceTest-wght-wdth.designspace",
    "DesignspaceTest/DesignspaceTest-lib.designspace",
    "DesignspaceTest/DesignspaceTest-slnt.designspace",
    "MutatorSansLite/MutatorSans_v5_implicit_one_vf.designspace",
    "MutatorSansLite/MutatorSans_v5_several_vfs.designspace",
    "InstantiatorStrictMathGlyph/StrictMathGlyph.designspace",
]

_cache = {}


def ds_world(ds_rel):
    if ds_rel in _cache:
        return _cache[ds_rel]
    from fontTools.designspaceLib import DesignSpaceDocument

    doc = DesignSpaceDocument.fromfile(os.path.join(CORPUS_DIR, ds_rel))
    base = os.path.dirname(ds_rel)
    ufos = []
    for s in doc.sources:
        p = os.path.normpath(os.path.join(base, s.filename))
        if p not in ufos:
            ufos.append(p)
    spec = {"corpus": ufos, "ds": ds_rel}
    _cache[ds_rel] = spec
    return spec


def all_corpus_worlds():
    out = [{"corpus": [u]} for u in SINGLE_UFOS]
    out.append({"corpus": ["Bug108.ufo"], "extra": ["Bug108_included.fea"]})
    out += [{"corpus": list(p)} for p in PAIRS]
    out += [ds_world(d) for d in DESIGNSPACES]
    return out


def describe(spec):
    if "corpus" in spec:
        return "corpus:" + (spec.get("ds") or ",".join(spec["corpus"]))
    return "gen:%dm/%dg/%s" % (len(spec["masters"]), len(spec["masters"][0]["glyphs"]),
                               "+".join(spec["features_on"][:6]))
