"""Process pool with hang protection.  A dead or timed-out worker is a *harness
error* (HarnessError), never a violation and never a silent pass."""
from __future__ import annotations

import faulthandler
import multiprocessing
import os
import sys
import time
from concurrent.futures import ProcessPoolExecutor, as_completed
from concurrent.futures.process import BrokenProcessPool


class HarnessError(Exception):
    pass


_SEQ = 0


def _init(timeout):
    faulthandler.enable()
    # dump all stacks and exit if a single task hangs
    global _TASK_TIMEOUT
    _TASK_TIMEOUT = timeout


_TASK_TIMEOUT = 300


def _wrap(args):
    global _SEQ
    fn, task = args
    faulthandler.dump_traceback_later(_TASK_TIMEOUT, exit=True)
    try:
        t0 = time.monotonic()
        res = fn(task)
        _SEQ += 1
        return {"task": task, "res": res, "pid": os.getpid(), "seq": _SEQ,
                "dt": time.monotonic() - t0}
    finally:
        faulthandler.cancel_dump_traceback_later()


def _wrap_isolated(args):
    """Run the task in a forked child of this worker.  The worker itself never
    executes a task, so every task starts from the same process state (modules
    imported, nothing compiled yet): process-wide caches filled by one seed cannot
    leak into the next, and a failure found here reproduces in a fresh interpreter."""
    import pickle
    import traceback

    r, w = os.pipe()
    pid = os.fork()
    if pid == 0:
        code = 0
        try:
            os.close(r)
            try:
                data = pickle.dumps(("ok", _wrap(args)))
            except BaseException as e:  # noqa: BLE001
                data = pickle.dumps(("err", repr(e), traceback.format_exc()))
            with os.fdopen(w, "wb") as f:
                f.write(data)
        except BaseException:  # noqa: BLE001
            code = 1
        finally:
            os._exit(code)
    os.close(w)
    with os.fdopen(r, "rb") as f:
        data = f.read()
    os.waitpid(pid, 0)
    if not data:
        raise HarnessError("isolated task process died without a result (task %r)" % (args[1],))
    kind, *rest = pickle.loads(data)
    if kind == "ok":
        return rest[0]
    raise HarnessError("task raised %s\n%s" % (rest[0], rest[1]))


_WARM = False


def warm_imports():
    """Import (only import) everything the tasks use lazily, in the parent, before
    the workers are forked: isolated task processes then start warm.  Importing a
    module executes no ufo2ft pipeline code, so the process state a task starts
    from is still that of a fresh interpreter as far as the system under test goes."""
    global _WARM
    if _WARM:
        return
    _WARM = True
    from . import seams

    for pkg in ("ufo2ft", "ufoLib2", "defcon", "fontMath", "fontTools.ttLib", "fontTools.feaLib",
                "fontTools.varLib", "fontTools.pens", "fontTools.cu2qu", "fontTools.qu2cu", "fontTools.otlLib",
                "fontTools.designspaceLib", "fontTools.colorLib", "fontTools.ufoLib", "fontTools.misc",
                "fontTools.cffLib", "fontTools.unicodedata", "fontTools.agl", "booleanOperations",
                "pathops", "cffsubr", "compreffor", "fs.memoryfs", "fs.osfs", "fs.wrapfs", "fs.copy",
                "fs.walk", "fs.tempfs", "pickle", "difflib", "uuid"):
        try:
            seams.preimport(pkg)
        except Exception:  # noqa: BLE001 - optional package missing
            pass


def run_pool(fn, tasks, workers=None, task_timeout=300, wall_cap=None, on_result=None, isolate=True):
    """Run fn(task) for every task on a fork pool.  Results are returned in
    *task order* (so that aggregation is independent of completion order)."""
    workers = workers or min(16, os.cpu_count() or 1)
    if isolate and os.environ.get("VERIF_NO_ISOLATE") != "1":
        warm_imports()
    tasks = list(tasks)
    results = [None] * len(tasks)
    t0 = time.monotonic()
    if workers <= 1:
        _init(task_timeout)
        runner = _wrap_isolated if (isolate and os.environ.get("VERIF_NO_ISOLATE") != "1") else _wrap
        for i, t in enumerate(tasks):
            results[i] = runner((fn, t))
            if on_result:
                on_result(results[i])
            if wall_cap and time.monotonic() - t0 > wall_cap:
                raise HarnessError("wall cap %.0fs exceeded after %d/%d tasks" % (wall_cap, i + 1, len(tasks)))
        return results
    ctx = multiprocessing.get_context("fork")
    with ProcessPoolExecutor(max_workers=workers, mp_context=ctx, initializer=_init,
                             initargs=(task_timeout,)) as ex:
        runner = _wrap_isolated if (isolate and os.environ.get("VERIF_NO_ISOLATE") != "1") else _wrap
        futs = {ex.submit(runner, (fn, t)): i for i, t in enumerate(tasks)}
        try:
            remaining = None if wall_cap is None else max(1.0, wall_cap - (time.monotonic() - t0))
            for fut in as_completed(futs, timeout=remaining):
                i = futs[fut]
                results[i] = fut.result()
                if on_result:
                    on_result(results[i])
        except BrokenProcessPool as e:
            raise HarnessError("worker died (see faulthandler dump on stderr): %r" % (e,))
        except TimeoutError:
            for f in futs:
                f.cancel()
            done = sum(1 for r in results if r is not None)
            raise HarnessError("wall cap %.0fs exceeded after %d/%d tasks" % (wall_cap, done, len(tasks)))
    return results
