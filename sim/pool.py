"""Process pool with hang protection.  A dead or timed-out worker is a *harness
error* (HarnessError), never a violation and never a silent pass."""
from __future__ import annotations

import faulthandler
import multiprocessing
import os
import sys
import time
from concurrent.futures import ProcessPoolExecutor, as_completed
from concurrent.futures.process import BrokenProcessPool


class HarnessError(Exception):
    pass


_SEQ = 0


def _init(timeout):
    faulthandler.enable()
    # dump all stacks and exit if a single task hangs
    global _TASK_TIMEOUT
    _TASK_TIMEOUT = timeout


_TASK_TIMEOUT = 300


def _wrap(args):
    global _SEQ
    fn, task = args
    faulthandler.dump_traceback_later(_TASK_TIMEOUT, exit=True)
    try:
        t0 = time.monotonic()
        res = fn(task)
        _SEQ += 1
        return {"task": task, "res": res, "pid": os.getpid(), "seq": _SEQ,
                "dt": time.monotonic() - t0}
    finally:
        faulthandler.cancel_dump_traceback_later()


def run_pool(fn, tasks, workers=None, task_timeout=300, wall_cap=None, on_result=None):
    """Run fn(task) for every task on a fork pool.  Results are returned in
    *task order* (so that aggregation is independent of completion order)."""
    workers = workers or min(16, os.cpu_count() or 1)
    tasks = list(tasks)
    results = [None] * len(tasks)
    t0 = time.monotonic()
    if workers <= 1:
        _init(task_timeout)
        for i, t in enumerate(tasks):
            results[i] = _wrap((fn, t))
            if on_result:
                on_result(results[i])
            if wall_cap and time.monotonic() - t0 > wall_cap:
                raise HarnessError("wall cap %.0fs exceeded after %d/%d tasks" % (wall_cap, i + 1, len(tasks)))
        return results
    ctx = multiprocessing.get_context("fork")
    with ProcessPoolExecutor(max_workers=workers, mp_context=ctx, initializer=_init,
                             initargs=(task_timeout,)) as ex:
        futs = {ex.submit(_wrap, (fn, t)): i for i, t in enumerate(tasks)}
        try:
            remaining = None if wall_cap is None else max(1.0, wall_cap - (time.monotonic() - t0))
            for fut in as_completed(futs, timeout=remaining):
                i = futs[fut]
                results[i] = fut.result()
                if on_result:
                    on_result(results[i])
        except BrokenProcessPool as e:
            raise HarnessError("worker died (see faulthandler dump on stderr): %r" % (e,))
        except TimeoutError:
            for f in futs:
                f.cancel()
            done = sum(1 for r in results if r is not None)
            raise HarnessError("wall cap %.0fs exceeded after %d/%d tasks" % (wall_cap, done, len(tasks)))
    return results
