"""BuildSim: deterministic simulation of a ufo2ft font-build session.

Importing this package puts /repo/Lib first on sys.path so that every check runs
the *current working tree* of googlefonts/ufo2ft, never an installed copy.
"""
import os
import sys
import warnings

REPO_LIB = os.environ.get("VERIF_REPO_LIB", "/repo/Lib")
if REPO_LIB not in sys.path[:1]:
    sys.path.insert(0, REPO_LIB)

warnings.filterwarnings("ignore", message="pkg_resources is deprecated")
warnings.filterwarnings("ignore", category=DeprecationWarning)

VERIF_DIR = os.path.dirname(os.path.dirname(os.path.abspath(__file__)))
CORPUS_DIR = os.path.join(VERIF_DIR, "corpus")
