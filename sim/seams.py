"""Seams owned by the simulator: disk, clock, environment, crash points, child
process, debug stream, temp file.  Nothing here draws random numbers: every
decision is data in the scenario (indices, byte counts, permutation keys)."""
from __future__ import annotations

import errno
import hashlib
import io
import os
import sys
import threading
import time as _real_time

import fs.base
import fs.errors
import fs.memoryfs
from fs.info import Info


class InjectedFault(Exception):
    """Raised by the simulator at a scheduled crash point."""


class InjectedInterrupt(BaseException):
    """Asynchronous interruption (the analogue of Ctrl-C / task cancellation):
    not an Exception, so ``except Exception`` clean-up code does not see it."""


class InjectedIOError(fs.errors.OperationFailed):
    """Disk error (EIO) raised by SimFS at a scheduled operation."""

    def __init__(self, path, op):
        super().__init__(path=path, exc=OSError(errno.EIO, "simulated I/O error"))
        self.op = op


FAULT_EXC = (InjectedFault, InjectedIOError)


# --------------------------------------------------------------------------- disk


class SimFS(fs.base.FS):
    """In-memory disk.  All traffic funnels through the seven essential FS
    methods, so one counter sees every operation ufoLib performs.

    * ``perm_key``: if not None, ``listdir`` results are ordered by
      sha256(perm_key + name) instead of sorted (directory enumeration order is
      not specified by any OS).
    * ``arm(fault)``: schedule ``{"kind": "io"|"short", "at": j}`` - the j-th
      *read* operation (openbin/listdir/getinfo) after arming fails with EIO or,
      for ``short``, returns only the first half of the file (torn read).
    * writes while ``sealed`` are refused and recorded (a compile call must never
      write to its sources).
    """

    _meta = {
        "case_insensitive": False,
        "invalid_path_chars": "\0",
        "network": False,
        "read_only": False,
        "thread_safe": True,
        "unicode_paths": True,
        "virtual": True,
    }

    def __init__(self, perm_key=None):
        super().__init__()
        self.inner = fs.memoryfs.MemoryFS()
        self.perm_key = perm_key
        self.sealed = False
        self.reset_counters()

    # -- control ---------------------------------------------------------
    def reset_counters(self):
        self.ops = 0
        self.oplog = []
        self.fault = None
        self.fired = None
        self.write_attempts = []

    def arm(self, fault):
        self.ops = 0
        self.oplog = []
        self.fault = fault
        self.fired = None

    def disarm(self):
        n = self.ops
        self.fault = None
        return n

    def _tick(self, op, path):
        self.ops += 1
        if len(self.oplog) < 4000:
            self.oplog.append((op, path))
        f = self.fault
        if f is not None and self.fired is None and f.get("at") == self.ops:
            self.fired = {"op": op, "path": path, "index": self.ops, "kind": f["kind"]}
            # a torn read of an opaque data/image file would be cached verbatim by
            # the lazy loader (the *disk* delivered different bytes - not a change
            # made by the code under test), so torn reads are only simulated for
            # parsed files (.glif/.plist/.fea); elsewhere the read fails with EIO
            if f["kind"] == "io" or not path.endswith((".glif", ".plist", ".fea")):
                self.fired["kind"] = "io"
                raise InjectedIOError(path, op)
            return "short"
        return None

    def image_digest(self):
        h = hashlib.sha256()
        for path in sorted(self.inner.walk.files()):
            h.update(path.encode())
            h.update(b"\0")
            h.update(self.inner.readbytes(path))
            h.update(b"\1")
        return h.hexdigest()

    # -- essential methods -------------------------------------------------
    def getinfo(self, path, namespaces=None):
        self._tick("getinfo", path)
        return self.inner.getinfo(path, namespaces=namespaces)

    def listdir(self, path):
        self._tick("listdir", path)
        names = self.inner.listdir(path)
        if self.perm_key is None:
            return sorted(names)
        k = self.perm_key
        return sorted(names, key=lambda n: hashlib.sha256((k + "/" + n).encode()).digest())

    def makedir(self, path, permissions=None, recreate=False):
        if self.sealed:
            self.write_attempts.append(("makedir", path))
            raise fs.errors.ResourceReadOnly(path)
        self.inner.makedir(path, permissions=permissions, recreate=recreate)
        return self.opendir(path)

    def openbin(self, path, mode="r", buffering=-1, **options):
        writing = any(c in mode for c in "wax+")
        if writing:
            if self.sealed:
                self.write_attempts.append(("openbin:" + mode, path))
                raise fs.errors.ResourceReadOnly(path)
            return self.inner.openbin(path, mode=mode, buffering=buffering, **options)
        r = self._tick("openbin", path)
        f = self.inner.openbin(path, mode=mode, buffering=buffering, **options)
        if r == "short":
            data = f.read()
            f.close()
            return io.BytesIO(data[: len(data) // 2])
        return f

    def remove(self, path):
        if self.sealed:
            self.write_attempts.append(("remove", path))
            raise fs.errors.ResourceReadOnly(path)
        self.inner.remove(path)

    def removedir(self, path):
        if self.sealed:
            self.write_attempts.append(("removedir", path))
            raise fs.errors.ResourceReadOnly(path)
        self.inner.removedir(path)

    def setinfo(self, path, info):
        if self.sealed:
            self.write_attempts.append(("setinfo", path))
            raise fs.errors.ResourceReadOnly(path)
        self.inner.setinfo(path, info)


# --------------------------------------------------------------------------- clock


class SimClock:
    """Stand-in for the ``time`` module as seen by ufo2ft.fontInfoData and
    fontTools.misc.timeTools.  Discrete clock: every read returns ``now`` and
    then advances it by the next jump of ``jumps`` (cyclic; may be negative)."""

    def __init__(self, start, jumps):
        self.now = float(start)
        self.start = float(start)
        self.jumps = list(jumps) or [1.0]
        self.reads = 0
        self.covered = 0.0

    def _read(self):
        t = self.now
        j = self.jumps[self.reads % len(self.jumps)]
        self.reads += 1
        self.now = max(0.0, self.now + j)
        self.covered += abs(j)
        return t

    # the subset of the time API reachable from the code under test
    def time(self):
        return self._read()

    def gmtime(self, secs=None):
        return _real_time.gmtime(self._read() if secs is None else secs)

    def localtime(self, secs=None):
        return _real_time.localtime(self._read() if secs is None else secs)

    def asctime(self, t=None):
        return _real_time.asctime(self.gmtime() if t is None else t)

    def strftime(self, fmt, t=None):
        return _real_time.strftime(fmt, self.gmtime() if t is None else t)

    def mktime(self, t):
        return _real_time.mktime(t)

    def __getattr__(self, name):  # anything else: the real thing (struct_time, ...)
        return getattr(_real_time, name)


class ClockSeam:
    """Context manager installing a SimClock + SOURCE_DATE_EPOCH + TZ."""

    def __init__(self, clock_spec, sde, tz):
        self.clock = SimClock(clock_spec.get("start", 1.7e9), clock_spec.get("jumps", [1]))
        self.sde = sde
        self.tz = tz
        self._saved = []

    def __enter__(self):
        import fontTools.misc.timeTools as tt

        import ufo2ft.fontInfoData as fid

        self._mods = [(fid, "time"), (tt, "time")]
        self._saved = [getattr(m, a) for m, a in self._mods]
        for m, a in self._mods:
            setattr(m, a, self.clock)
        self._env = {k: os.environ.get(k) for k in ("SOURCE_DATE_EPOCH", "TZ")}
        if self.sde is None:
            os.environ.pop("SOURCE_DATE_EPOCH", None)
        else:
            os.environ["SOURCE_DATE_EPOCH"] = str(self.sde)
        if self.tz is not None:
            os.environ["TZ"] = self.tz
            _real_time.tzset()
        return self.clock

    def __exit__(self, *exc):
        for (m, a), v in zip(self._mods, self._saved):
            setattr(m, a, v)
        for k, v in self._env.items():
            if v is None:
                os.environ.pop(k, None)
            else:
                os.environ[k] = v
        _real_time.tzset()
        return False


# --------------------------------------------------------------------------- crash points


def _pkg_of(filename, roots):
    for name, root in roots:
        if filename.startswith(root):
            return name
    return None


_PREIMPORTED = set()


def preimport(pkg):
    """Import every submodule of ``pkg`` once per process.  ufo2ft imports some
    modules lazily inside functions; module and class bodies executing on first
    use would otherwise be counted as crash points in a cold interpreter but not
    in a warm worker, and one seed would no longer be one execution."""
    if pkg in _PREIMPORTED:
        return
    _PREIMPORTED.add(pkg)
    import importlib
    import pkgutil

    mod = importlib.import_module(pkg)
    path = getattr(mod, "__path__", None)
    if not path:
        return
    for info in pkgutil.walk_packages(path, pkg + "."):
        if info.name.endswith("__main__"):
            continue
        try:
            importlib.import_module(info.name)
        except Exception:  # noqa: BLE001 - optional dependency missing
            pass


class TraceFault:
    """Counts crash points (function entries, or executed lines, of code that
    lives in the selected packages) and raises at the scheduled one.

    ``spec``: {"kind": "trace"|"mem", "at": k, "gran": "call"|"line",
               "pkgs": ["ufo2ft", ...]}   (``at`` None = count only)
    """

    def __init__(self, spec=None, pkgs=("ufo2ft",), gran="call"):
        spec = spec or {}
        self.at = spec.get("at")
        self.kind = spec.get("kind", "trace")
        self.gran = spec.get("gran", gran)
        self.pkgs = tuple(spec.get("pkgs", pkgs))
        self.count = 0
        self.fired = None
        self.roots = []
        self.sites = set()
        self._cache = {}
        for p in self.pkgs:
            preimport(p)
            mod = __import__(p)
            for sub in p.split(".")[1:]:
                mod = getattr(mod, sub)
            root = os.path.dirname(mod.__file__) + os.sep
            self.roots.append((p, root))

    def _hit(self, frame, what):
        self.count += 1
        if self.at is not None and self.count == self.at and self.fired is None:
            code = frame.f_code
            self.fired = {
                "site": "%s:%s" % (os.path.basename(code.co_filename), code.co_name),
                "line": frame.f_lineno,
                "what": what,
                "index": self.count,
            }
            if self.kind == "mem":
                raise MemoryError("simulated allocation failure")
            if self.kind == "intr":
                raise InjectedInterrupt("interrupted at crash point %d" % self.count)
            raise InjectedFault("crash point %d at %s" % (self.count, self.fired["site"]))

    def _global(self, frame, event, arg):
        code = frame.f_code
        inside = self._cache.get(code)
        if inside is None:
            inside = self._cache[code] = _pkg_of(code.co_filename, self.roots) is not None
        if not inside:
            return None
        if code.co_name == "<genexpr>" and self.gran == "call":
            # resumptions of a generator expression are not function entries;
            # (line granularity still covers the code inside them)
            return None
        if self.gran == "call":
            self._hit(frame, "call")
            return None
        self._hit(frame, "call")
        return self._local

    def _local(self, frame, event, arg):
        if event == "line":
            self._hit(frame, "line")
        return self._local

    def __enter__(self):
        self._prev = sys.gettrace()
        if os.environ.get("VERIF_COVERAGE") == "1":
            # measuring line coverage of the SUT with coverage.py (which owns the
            # trace hook): crash points are neither counted nor injected
            return self
        sys.settrace(self._global)
        return self

    def __exit__(self, *exc):
        if os.environ.get("VERIF_COVERAGE") != "1":
            sys.settrace(self._prev)
        return False


# --------------------------------------------------------------------------- misc seams


class SimStream(io.StringIO):
    """Debug feature stream that runs out of space after ``limit`` characters."""

    def __init__(self, limit=None):
        super().__init__()
        self.limit = limit
        self.fired = None

    def write(self, s):
        if self.limit is not None and self.tell() + len(s) > self.limit:
            room = max(0, self.limit - self.tell())
            super().write(s[:room])
            self.fired = {"written": self.tell()}
            raise OSError(errno.ENOSPC, "simulated: no space left on device")
        return super().write(s)


class SubprocFault:
    """Fails the n-th invocation of the CFF subroutiniser child process."""

    def __init__(self, n=None, mode="oserror"):
        self.n = n
        self.mode = mode
        self.calls = 0
        self.fired = None

    def __enter__(self):
        import subprocess

        import cffsubr

        self._mod = cffsubr
        self._orig = cffsubr.subprocess.run
        fault = self

        def run(*a, **kw):
            fault.calls += 1
            if fault.n is not None and fault.calls == fault.n:
                fault.fired = {"call": fault.calls}
                if fault.mode == "oserror":
                    raise OSError(errno.ENOMEM, "simulated: cannot allocate memory (fork)")
                raise subprocess.CalledProcessError(137, a[0] if a else "tx")
            return fault._orig(*a, **kw)

        self._run = run
        # cffsubr does ``import subprocess`` and calls subprocess.run: patch the
        # attribute on a shim so that only cffsubr sees it.
        shim = type(sys)("subprocess_shim")
        shim.__dict__.update(subprocess.__dict__)
        shim.run = run
        self._saved = cffsubr.subprocess
        cffsubr.subprocess = shim
        return self

    def __exit__(self, *exc):
        self._mod.subprocess = self._saved
        return False


class TmpfileFault:
    """Makes NamedTemporaryFile on the feature-compile error path fail."""

    def __init__(self, fail=True):
        self.fail = fail
        self.calls = 0
        self.fired = None

    def __enter__(self):
        import ufo2ft.featureCompiler as fc

        self._fc = fc
        self._orig = fc.NamedTemporaryFile
        fault = self

        def ntf(*a, **kw):
            fault.calls += 1
            if fault.fail:
                fault.fired = {"call": fault.calls}
                raise OSError(errno.ENOSPC, "simulated: cannot create temp file")
            return io.BytesIO()  # never litter the real /tmp

        class _Sink(io.BytesIO):
            name = "<simulated tmp>"

            def __enter__(self):
                return self

            def __exit__(self, *a):
                return False

        def ntf_ok(*a, **kw):
            fault.calls += 1
            return _Sink()

        fc.NamedTemporaryFile = ntf if self.fail else ntf_ok
        return self

    def __exit__(self, *exc):
        self._fc.NamedTemporaryFile = self._orig
        return False
